/* C05 targeted: one client process, several connections with mixed decisions,
 * sync + async connect API, optional non-root server (argv[1] = server uid). */
#define _GNU_SOURCE
#include <stdio.h>
#include <stdlib.h>
#include <string.h>
#include <unistd.h>
#include <errno.h>
#include <dirent.h>
#include <grp.h>
#include <poll.h>
#include <sys/mman.h>
#include <sys/stat.h>
#include <sys/wait.h>
#include <qb/qbdefs.h>
#include <qb/qbloop.h>
#include <qb/qbipcs.h>
#include <qb/qbipcc.h>
#define MSG_ID (QB_IPC_MSG_USER_START + 1)
struct shared { volatile int ready, stop, naccept, nmsg, ncreated, phase; volatile pid_t spid, cpid; volatile int fail; volatile uid_t seen[16]; } *sh;
static const int decisions[] = { 0, -EPERM, -ENOMEM, 0, -EACCES, 0, -EAGAIN, 0 };
static qb_loop_t *loop; static char nm[2][64];
static int32_t s_accept(qb_ipcs_connection_t *c, uid_t u, gid_t g) { int n = sh->naccept++; sh->seen[n & 15] = u; return decisions[n % 8]; }
static void s_created(qb_ipcs_connection_t *c) { sh->ncreated++; }
static int32_t s_msg(qb_ipcs_connection_t *c, void *d, size_t s) { struct qb_ipc_response_header r = { MSG_ID, sizeof r, 0 }; sh->nmsg++; qb_ipcs_response_send(c, &r, sizeof r); return 0; }
static int32_t s_closed(qb_ipcs_connection_t *c) { return 0; }
static void s_destroyed(qb_ipcs_connection_t *c) { }
static int32_t job_add(enum qb_loop_priority p, void *d, qb_loop_job_dispatch_fn f) { return qb_loop_job_add(loop, p, d, f); }
static int32_t d_add(enum qb_loop_priority p, int32_t fd, int32_t ev, void *d, qb_ipcs_dispatch_fn_t f) { return qb_loop_poll_add(loop, p, fd, ev, d, f); }
static int32_t d_mod(enum qb_loop_priority p, int32_t fd, int32_t ev, void *d, qb_ipcs_dispatch_fn_t f) { return qb_loop_poll_mod(loop, p, fd, ev, d, f); }
static int32_t d_del(int32_t fd) { return qb_loop_poll_del(loop, fd); }
static void tick(void *d) { qb_loop_timer_handle h; if (sh->stop) { qb_loop_stop(loop); return; } qb_loop_timer_add(loop, QB_LOOP_LOW, 10 * QB_TIME_NS_IN_MSEC, NULL, tick, &h); }
static void become(uid_t u) { if (setgroups(0, NULL) || setregid(u, u) || setreuid(u, u)) _exit(2); }
static int count_dirs(int *files)
{
	char pre[64], p[512]; int n = 0; DIR *d = opendir("/dev/shm"); struct dirent *e;
	snprintf(pre, sizeof pre, "qb-%d-%d-", sh->spid, sh->cpid); *files = 0;
	while (d && (e = readdir(d))) if (!strncmp(e->d_name, pre, strlen(pre))) {
		n++; snprintf(p, sizeof p, "/dev/shm/%s", e->d_name);
		DIR *d2 = opendir(p); struct dirent *e2; struct stat st;
		stat(p, &st); printf("   %s %o %d:%d\n", p, st.st_mode & 07777, st.st_uid, st.st_gid);
		while (d2 && (e2 = readdir(d2))) if (e2->d_name[0] != '.') { (*files)++; }
		if (d2) closedir(d2);
	}
	if (d) closedir(d);
	return n;
}
static int xchg(qb_ipcc_connection_t *c) { struct qb_ipc_request_header h = { MSG_ID, sizeof h }; struct qb_ipc_response_header r; struct iovec iov = { &h, sizeof h }; return qb_ipcc_sendv_recv(c, &iov, 1, &r, sizeof r, 2000) == sizeof r; }
#define EXPECT(c, msg, ...) do { if (!(c)) { printf("FAIL: " msg "\n", ##__VA_ARGS__); sh->fail++; } } while (0)
int main(int argc, char **argv)
{
	uid_t suid = argc > 1 ? atoi(argv[1]) : 0; uid_t cuid = argc > 2 ? atoi(argv[2]) : 12345;
	int st, f;
	setvbuf(stdout, NULL, _IONBF, 0);
	sh = mmap(NULL, sizeof *sh, PROT_READ | PROT_WRITE, MAP_SHARED | MAP_ANONYMOUS, -1, 0);
	snprintf(nm[0], 64, "h2c05tm%d", getpid()); snprintf(nm[1], 64, "h2c05ts%d", getpid());
	pid_t sp = fork();
	if (sp == 0) {
		struct qb_ipcs_service_handlers h = { s_accept, s_created, s_msg, s_closed, s_destroyed };
		struct qb_ipcs_poll_handlers ph = { job_add, d_add, d_mod, d_del };
		if (suid) become(suid);
		sh->spid = getpid(); loop = qb_loop_create();
		for (int t = 0; t < 2; t++) { qb_ipcs_service_t *s = qb_ipcs_create(nm[t], 0, t ? QB_IPC_SOCKET : QB_IPC_SHM, &h); qb_ipcs_poll_handlers_set(s, &ph); if (qb_ipcs_run(s)) _exit(2); }
		tick(NULL); sh->ready = 1; qb_loop_run(loop); _exit(0);
	}
	while (!sh->ready) usleep(1000);
	pid_t cp = fork();
	if (cp == 0) {
		qb_ipcc_connection_t *c[8]; int fd, rc;
		become(cuid); sh->cpid = getpid();
		errno = 0; c[0] = qb_ipcc_connect(nm[0], 8192); EXPECT(c[0], "conn0 shm accept, errno %d", errno);
		errno = 0; c[1] = qb_ipcc_connect(nm[0], 8192); EXPECT(!c[1] && errno == EPERM, "conn1 shm refuse EPERM: %p errno %d", (void *)c[1], errno);
		c[2] = qb_ipcc_connect_async(nm[1], 8192, &fd); { struct pollfd p = { fd, POLLIN, 0 }; poll(&p, 1, 2000); } rc = qb_ipcc_connect_continue(c[2]); EXPECT(rc == -ENOMEM, "conn2 sock async refuse ENOMEM: %d", rc);
		c[3] = qb_ipcc_connect_async(nm[1], 8192, &fd); { struct pollfd p = { fd, POLLIN, 0 }; poll(&p, 1, 2000); } rc = qb_ipcc_connect_continue(c[3]); EXPECT(rc == 0, "conn3 sock async accept: %d", rc);
		errno = 0; c[4] = qb_ipcc_connect(nm[1], 8192); EXPECT(!c[4] && errno == EACCES, "conn4 sock refuse EACCES: errno %d", errno);
		c[5] = qb_ipcc_connect_async(nm[0], 8192, &fd); { struct pollfd p = { fd, POLLIN, 0 }; poll(&p, 1, 2000); } rc = qb_ipcc_connect_continue(c[5]); EXPECT(rc == 0, "conn5 shm async accept: %d", rc);
		c[6] = qb_ipcc_connect_async(nm[0], 8192, &fd); { struct pollfd p = { fd, POLLIN, 0 }; poll(&p, 1, 2000); } rc = qb_ipcc_connect_continue(c[6]); EXPECT(rc == -EAGAIN, "conn6 shm async refuse EAGAIN: %d", rc);
		errno = 0; c[7] = qb_ipcc_connect(nm[1], 8192); EXPECT(c[7], "conn7 sock accept errno %d", errno);
		sh->phase = 1; while (sh->phase == 1) usleep(1000);
		if (c[0]) EXPECT(xchg(c[0]), "xchg 0"); if (rc == 0 || 1) { if (c[3]) EXPECT(xchg(c[3]), "xchg 3"); }
		if (c[5]) EXPECT(xchg(c[5]), "xchg 5"); if (c[7]) EXPECT(xchg(c[7]), "xchg 7");
		if (c[0]) qb_ipcc_disconnect(c[0]); if (c[3]) qb_ipcc_disconnect(c[3]); if (c[5]) qb_ipcc_disconnect(c[5]); if (c[7]) qb_ipcc_disconnect(c[7]);
		_exit(0);
	}
	while (sh->phase != 1) { if (waitpid(cp, &st, WNOHANG) == cp) { printf("client died %x\n", st); sh->stop = 1; return 2; } usleep(1000); }
	usleep(100000);
	int n = count_dirs(&f);
	printf("server uid %d client uid %d: accept calls %d, created %d, dirs %d (want 4), files %d (want 6+1+6+1=14)\n", suid, cuid, sh->naccept, sh->ncreated, n, f);
	EXPECT(n == 4 && f == 14, "dirs/files");
	EXPECT(sh->ncreated == 4 && sh->naccept == 8, "callbacks");
	for (int i = 0; i < 8; i++) EXPECT(sh->seen[i] == cuid, "uid seen %d", sh->seen[i]);
	sh->phase = 2; waitpid(cp, &st, 0); usleep(200000);
	n = count_dirs(&f);
	printf("after disconnect: dirs %d files %d msgs %d\n", n, f, sh->nmsg);
	EXPECT(n == 0, "leftover"); EXPECT(sh->nmsg == 4, "msgs");
	sh->stop = 1; waitpid(sp, &st, 0);
	printf(sh->fail ? "FAILED %d\n" : "ok\n", sh->fail);
	return sh->fail ? 1 : 0;
}
