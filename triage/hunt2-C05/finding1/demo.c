/*
 * C05 finding 1: a REFUSED peer's data reaches the message callback.
 *
 * SOCKET transport on Linux: the per-connection request channel is a datagram
 * socket bound in the *abstract* namespace ("\0/dev/shm/qb-S-C-fd-XXXXXX/qb-NAME-request").
 * Abstract sockets carry no owner/mode, their names are world readable in
 * /proc/net/unix, and the server's socket stays unconnected until the first
 * response goes out.  Anybody - including a peer the accept callback has just
 * refused - can sendto() it; the server hands the datagram to msg_process as
 * if it came from the accepted client.
 *
 * exit 0: property held, 1: violated, 2: setup problem
 */
#define _GNU_SOURCE
#include <stdio.h>
#include <stdlib.h>
#include <string.h>
#include <unistd.h>
#include <errno.h>
#include <grp.h>
#include <signal.h>
#include <sys/mman.h>
#include <sys/socket.h>
#include <sys/un.h>
#include <sys/wait.h>
#include <qb/qbdefs.h>
#include <qb/qbloop.h>
#include <qb/qbipcs.h>
#include <qb/qbipcc.h>

#define UID_OK  12345
#define UID_BAD 12346
#define MSG_ID (QB_IPC_MSG_USER_START + 1)

struct shared {
	volatile int ready, stop, a_connected, b_done, b_err, b_sent, go_a;
	volatile pid_t spid;
	volatile int accepts_ok, accepts_refused, created;
	volatile int msgs_from_a, msgs_from_b;
	volatile pid_t b_msg_conn_pid;
	volatile uid_t b_msg_conn_uid;
} *sh;

struct msg { struct qb_ipc_request_header hdr; char who[32]; };

static qb_loop_t *loop;
static char name[64];

static int32_t s_accept(qb_ipcs_connection_t *c, uid_t uid, gid_t gid)
{
	if (uid == UID_OK) { sh->accepts_ok++; return 0; }
	sh->accepts_refused++;
	return -EACCES;
}
static void s_created(qb_ipcs_connection_t *c) { sh->created++; }
static int32_t s_msg(qb_ipcs_connection_t *c, void *data, size_t size)
{
	struct msg *m = data;
	struct qb_ipcs_connection_stats st;
	struct qb_ipc_response_header r = { .id = MSG_ID, .size = sizeof r, .error = 0 };
	qb_ipcs_connection_stats_get(c, &st, 0);
	if (size >= sizeof *m && strcmp(m->who, "refused-peer-B") == 0) {
		sh->msgs_from_b++;
		sh->b_msg_conn_pid = st.client_pid;
	} else {
		sh->msgs_from_a++;
	}
	qb_ipcs_response_send(c, &r, sizeof r);
	return 0;
}
static int32_t s_closed(qb_ipcs_connection_t *c) { return 0; }
static void s_destroyed(qb_ipcs_connection_t *c) { }
static int32_t job_add(enum qb_loop_priority p, void *d, qb_loop_job_dispatch_fn f) { return qb_loop_job_add(loop, p, d, f); }
static int32_t d_add(enum qb_loop_priority p, int32_t fd, int32_t ev, void *d, qb_ipcs_dispatch_fn_t f) { return qb_loop_poll_add(loop, p, fd, ev, d, f); }
static int32_t d_mod(enum qb_loop_priority p, int32_t fd, int32_t ev, void *d, qb_ipcs_dispatch_fn_t f) { return qb_loop_poll_mod(loop, p, fd, ev, d, f); }
static int32_t d_del(int32_t fd) { return qb_loop_poll_del(loop, fd); }
static void tick(void *d)
{
	qb_loop_timer_handle h;
	if (sh->stop) { qb_loop_stop(loop); return; }
	qb_loop_timer_add(loop, QB_LOOP_LOW, 10 * QB_TIME_NS_IN_MSEC, NULL, tick, &h);
}

static void server(void)
{
	struct qb_ipcs_service_handlers h = { s_accept, s_created, s_msg, s_closed, s_destroyed };
	struct qb_ipcs_poll_handlers ph = { job_add, d_add, d_mod, d_del };
	qb_ipcs_service_t *s;
	sh->spid = getpid();
	loop = qb_loop_create();
	s = qb_ipcs_create(name, 0, QB_IPC_SOCKET, &h);
	qb_ipcs_poll_handlers_set(s, &ph);
	if (qb_ipcs_run(s) != 0) _exit(2);
	tick(NULL);
	sh->ready = 1;
	qb_loop_run(loop);
	qb_ipcs_destroy(s);
	_exit(0);
}

static void become(uid_t u)
{
	if (setgroups(0, NULL) || setregid(u, u) || setreuid(u, u)) _exit(2);
}

static void client_a(void)
{
	become(UID_OK);
	qb_ipcc_connection_t *c = qb_ipcc_connect(name, 8192);
	if (!c) { sh->a_connected = -errno; _exit(2); }
	sh->a_connected = 1;
	while (!sh->go_a) usleep(1000);	/* idle: has not sent anything yet */
	qb_ipcc_disconnect(c);
	_exit(0);
}

static void client_b(void)
{
	char line[512], pre[64];
	become(UID_BAD);
	errno = 0;
	qb_ipcc_connection_t *c = qb_ipcc_connect(name, 8192);
	sh->b_err = c ? 0 : errno;
	if (c) { sh->b_done = 1; _exit(2); }
	/* refused.  Now look around. */
	FILE *f = fopen("/proc/net/unix", "r");
	int fd = socket(AF_UNIX, SOCK_DGRAM, 0);
	snprintf(pre, sizeof pre, "@/dev/shm/qb-%d-", sh->spid);
	while (f && fgets(line, sizeof line, f)) {
		char *p = strstr(line, pre);
		if (!p) continue;
		p[strcspn(p, "\n")] = 0;
		size_t l = strlen(p);
		while (l > 1 && p[l - 1] == '@') p[--l] = 0;
		if (l < 9 || strcmp(p + l - 8, "-request")) continue;
		struct sockaddr_un a; struct msg m;
		memset(&a, 0, sizeof a); a.sun_family = AF_UNIX;
		memcpy(a.sun_path + 1, p + 1, QB_MIN(l - 1, sizeof a.sun_path - 2));
		memset(&m, 0, sizeof m);
		m.hdr.id = MSG_ID; m.hdr.size = sizeof m; strcpy(m.who, "refused-peer-B");
		if (sendto(fd, &m, sizeof m, 0, (struct sockaddr *)&a, sizeof a) == sizeof m) {
			sh->b_sent++;
			printf("B (uid %d, refused): sendto(\"%s\") ok\n", UID_BAD, p);
		}
	}
	if (f) fclose(f);
	close(fd);
	sh->b_done = 1;
	_exit(0);
}

int main(void)
{
	int st, w;
	setvbuf(stdout, NULL, _IONBF, 0);
	sh = mmap(NULL, sizeof *sh, PROT_READ | PROT_WRITE, MAP_SHARED | MAP_ANONYMOUS, -1, 0);
	memset((void *)sh, 0, sizeof *sh);
	snprintf(name, sizeof name, "h2c05f1-%d", getpid());
	pid_t sp = fork(); if (sp == 0) server();
	for (w = 0; !sh->ready && w < 5000; w++) usleep(1000);
	pid_t a = fork(); if (a == 0) client_a();
	for (w = 0; !sh->a_connected && w < 5000; w++) usleep(1000);
	if (sh->a_connected != 1) { printf("setup: A could not connect (%d)\n", sh->a_connected); sh->stop = 1; return 2; }
	printf("A (uid %d): accepted and connected, idle\n", UID_OK);
	pid_t b = fork(); if (b == 0) client_b();
	waitpid(b, &st, 0);
	printf("B (uid %d): qb_ipcc_connect failed with errno %d (%s)\n", UID_BAD, sh->b_err, strerror(sh->b_err));
	usleep(200000);	/* let the server dispatch */
	printf("server: accepted %d, refused %d, connection_created %d; msg_process saw %d message(s) from A, %d from refused B",
	       sh->accepts_ok, sh->accepts_refused, sh->created, sh->msgs_from_a, sh->msgs_from_b);
	if (sh->msgs_from_b) printf(" (delivered on the connection of pid %d = A pid %d)", sh->b_msg_conn_pid, a);
	printf("\n");
	sh->go_a = 1;
	waitpid(a, &st, 0);
	sh->stop = 1;
	waitpid(sp, &st, 0);
	if (sh->b_err != EACCES) { printf("UNEXPECTED: B not refused with EACCES\n"); return 2; }
	if (sh->msgs_from_b) { printf("VIOLATED: data sent by a refused peer reached the message callback\n"); return 1; }
	printf("held: nothing from B reached msg_process (B managed %d sendto)\n", sh->b_sent);
	return 0;
}
