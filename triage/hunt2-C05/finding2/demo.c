/*
 * C05 finding 2: between chown() and chmod() the directory and the files of a
 * new connection are owned by the authorised user with the creation mode
 * (0700 / 0600), whatever mode the accept callback chose.  If the chosen mode
 * does not contain owner rw (here: 0060, "group only") they are for a moment
 * more permissive than what was chosen.
 *
 * The program interposes chown()/chmod() (libqb calls them through the PLT)
 * and looks at the object right before every chmod() libqb does on it.
 *
 * exit 0: held, 1: violated, 2: setup problem
 */
#define _GNU_SOURCE
#include <stdio.h>
#include <stdlib.h>
#include <string.h>
#include <unistd.h>
#include <errno.h>
#include <fcntl.h>
#include <grp.h>
#include <sys/stat.h>
#include <sys/syscall.h>
#include <sys/wait.h>
#include <qb/qbdefs.h>
#include <qb/qbloop.h>
#include <qb/qbipcs.h>
#include <qb/qbipcc.h>

#define PEER 12345
#define CHOSEN 0060

static qb_loop_t *loop;
static int violations, looked, accepted;
static pid_t server_pid;

int chown(const char *path, uid_t u, gid_t g)
{
	return syscall(SYS_fchownat, AT_FDCWD, path, u, g, 0);
}
int chmod(const char *path, mode_t m)
{
	struct stat st;
	if (getpid() == server_pid && accepted && strncmp(path, "/dev/shm/qb-", 12) == 0 && stat(path, &st) == 0) {
		mode_t allow = S_ISDIR(st.st_mode) ? (CHOSEN | ((CHOSEN & 0444) >> 2)) : CHOSEN;
		mode_t have = st.st_mode & 07777;
		int bad = st.st_uid == PEER && (have & ~allow);
		looked++;
		printf("  before chmod(%s, %o): owner %d:%d mode %04o%s\n", path, m, st.st_uid, st.st_gid, have,
		       bad ? "   <-- authorised owner has more than the chosen mode" : "");
		if (bad) violations++;
	}
	return syscall(SYS_fchmodat, AT_FDCWD, path, m);
}

static int32_t s_accept(qb_ipcs_connection_t *c, uid_t uid, gid_t gid)
{
	qb_ipcs_connection_auth_set(c, uid, gid, CHOSEN);
	accepted = 1;
	return 0;
}
static int32_t s_msg(qb_ipcs_connection_t *c, void *d, size_t s) { return 0; }
static int32_t s_closed(qb_ipcs_connection_t *c) { return 0; }
static void s_destroyed(qb_ipcs_connection_t *c) { qb_loop_stop(loop); }
static int32_t job_add(enum qb_loop_priority p, void *d, qb_loop_job_dispatch_fn f) { return qb_loop_job_add(loop, p, d, f); }
static int32_t d_add(enum qb_loop_priority p, int32_t fd, int32_t ev, void *d, qb_ipcs_dispatch_fn_t f) { return qb_loop_poll_add(loop, p, fd, ev, d, f); }
static int32_t d_mod(enum qb_loop_priority p, int32_t fd, int32_t ev, void *d, qb_ipcs_dispatch_fn_t f) { return qb_loop_poll_mod(loop, p, fd, ev, d, f); }
static int32_t d_del(int32_t fd) { return qb_loop_poll_del(loop, fd); }
static void giveup(void *d) { qb_loop_stop(loop); }

static int one(enum qb_ipc_type type, const char *tn)
{
	struct qb_ipcs_service_handlers h = { s_accept, NULL, s_msg, s_closed, s_destroyed };
	struct qb_ipcs_poll_handlers ph = { job_add, d_add, d_mod, d_del };
	char name[64];
	qb_loop_timer_handle th;
	int st;
	snprintf(name, sizeof name, "h2c05f2-%s-%d", tn, getpid());
	printf("%s transport, accept callback: qb_ipcs_connection_auth_set(c, %d, %d, %04o)\n", tn, PEER, PEER, CHOSEN);
	accepted = 0;
	loop = qb_loop_create();
	qb_ipcs_service_t *s = qb_ipcs_create(name, 0, type, &h);
	qb_ipcs_poll_handlers_set(s, &ph);
	if (qb_ipcs_run(s) != 0) return 2;
	pid_t c = fork();
	if (c == 0) {
		if (setgroups(0, NULL) || setregid(PEER, PEER) || setreuid(PEER, PEER)) _exit(2);
		qb_ipcc_connection_t *cc = qb_ipcc_connect(name, 8192);
		if (cc) qb_ipcc_disconnect(cc);
		_exit(0);
	}
	qb_loop_timer_add(loop, QB_LOOP_LOW, 2000ULL * QB_TIME_NS_IN_MSEC, NULL, giveup, &th);
	qb_loop_run(loop);
	waitpid(c, &st, 0);
	qb_ipcs_destroy(s);
	qb_loop_destroy(loop);
	return 0;
}

int main(void)
{
	setvbuf(stdout, NULL, _IONBF, 0);
	server_pid = getpid();
	if (geteuid() != 0) { printf("needs root\n"); return 2; }
	if (one(QB_IPC_SHM, "shm") || one(QB_IPC_SOCKET, "socket")) return 2;
	printf("%d objects looked at, %d more permissive than chosen while owned by the authorised user\n", looked, violations);
	if (!looked) return 2;
	if (violations) { printf("VIOLATED\n"); return 1; }
	printf("held\n");
	return 0;
}
