/*
 * C05 model-based randomized tester: IPC admission and privacy of the
 * per-connection files.
 *
 * One server process (root) publishes a SHM and a SOCKET service.  The driver
 * forks clients with random real/effective uid/gid; a decision table in
 * shared memory tells the accept callback what to do with each of them
 * (accept / refuse with errno N / override owner+mode).  Checked:
 *   - uid/gid seen by accept == effective ids of the client
 *   - refused  => connect fails with exactly that errno, nothing left in
 *                 /dev/shm for it, none of its messages reach msg_process
 *   - accepted => dir/files owned by authorised uid/gid, mode subset of the
 *                 chosen mode, at every chown/chmod step (interposed) and
 *                 when looked at from outside
 *   - messages reaching msg_process come from accepted clients only
 * Refused clients additionally try to push data at whatever they can find
 * (abstract datagram sockets listed in /proc/net/unix).
 *
 * usage: fuzz <seed> <iterations> [maxbatch [inject [only_modes_with_0600]]]
 *   inject=1: refused clients also sendto() every abstract "-request" socket of
 *             the server they find in /proc/net/unix (finding 1)
 *   only_modes_with_0600=1: accept callback only chooses modes containing 0600
 *   env TOLERATE_CREATION_MODE=1: do not report finding 2 (0700/0600 between
 *             chown and chmod) so that runs with all modes go on
 */
#define _GNU_SOURCE
#include <stdio.h>
#include <stdlib.h>
#include <string.h>
#include <unistd.h>
#include <errno.h>
#include <dirent.h>
#include <dlfcn.h>
#include <fcntl.h>
#include <grp.h>
#include <poll.h>
#include <signal.h>
#include <stdarg.h>
#include <sys/mman.h>
#include <sys/socket.h>
#include <sys/stat.h>
#include <sys/syscall.h>
#include <sys/un.h>
#include <sys/wait.h>
#include <qb/qbdefs.h>
#include <qb/qbloop.h>
#include <qb/qbipcs.h>
#include <qb/qbipcc.h>
#include <qb/qblog.h>
#include "ipc_int.h"

#define NSLOT 16
#define MSG_ID (QB_IPC_MSG_USER_START + 7)

struct slot {
	volatile pid_t pid;
	volatile int transport;		/* 0 shm 1 socket */
	volatile int raw;		/* raw handshake instead of libqb client */
	volatile int decision;		/* 0 or -errno */
	volatile int set_auth;
	volatile uid_t auid; volatile gid_t agid; volatile mode_t amode;
	volatile uid_t ruid, euid; volatile gid_t rgid, egid;
	volatile uint32_t maxmsg;
	/* server side */
	volatile int accept_called;
	volatile uid_t seen_uid; volatile gid_t seen_gid;
	volatile int msgs;
	volatile int created;
	char dir[160];
	/* client side */
	volatile int state;		/* 0 starting 1 connected 2 failed */
	volatile int err;
	volatile int go;
	volatile int sent_ok;
};

struct shared {
	volatile int stop;
	volatile int viol;
	volatile long msgs_total;
	volatile long injected_seen;
	volatile pid_t server_pid;
	volatile int server_ready;
	struct slot s[NSLOT];
	char vmsg[8][256];
};
static struct shared *sh;

struct tmsg {
	struct qb_ipc_request_header hdr;
	int32_t slot;
	pid_t pid;
	int32_t injected;
	char pad[64];
};

static void viol(const char *fmt, ...)
{
	va_list ap;
	char b[256];
	va_start(ap, fmt);
	vsnprintf(b, sizeof b, fmt, ap);
	va_end(ap);
	int n = __sync_fetch_and_add(&sh->viol, 1);
	if (n < 8) snprintf(sh->vmsg[n], 256, "%s", b);
	fprintf(stderr, "VIOLATION: %s\n", b);
}

/* ---------------------------------------------------------------- server */
static qb_loop_t *loop;
static qb_ipcs_service_t *svc[2];
static char svcname[2][64];
static uid_t my_uid;

static char curdir[256];	/* directory of the handshake in progress */
static struct slot *cur;	/* slot of the handshake in progress */
static int cur_known;		/* accept callback has run and accepted */
static uid_t cur_uid; static gid_t cur_gid; static mode_t cur_mode;
static int in_handshake;

static void check_one(const char *p, int isdir, const char *when)
{
	struct stat st;
	if (lstat(p, &st) != 0) return;
	mode_t m = st.st_mode & 07777;
	if (st.st_uid == my_uid && (m & 077) == 0 && (m & 07000) == 0)
		return;	/* still the server's own, owner only */
	if (getenv("TOLERATE_CREATION_MODE") && cur_known && st.st_uid == cur_uid &&
	    m == (isdir ? 0700 : 0600))
		return;	/* finding 2 (window between chown and chmod): known, look for other things */
	if (!cur_known) {
		viol("%s: %s uid=%d gid=%d mode=%o before/without authorisation",
		     when, p, st.st_uid, st.st_gid, m);
		return;
	}
	mode_t allow = cur_mode & 07777;
	if (isdir) allow |= (cur_mode & 0444) >> 2;
	if (m & ~allow)
		viol("%s: %s mode=%o (uid=%d gid=%d) exceeds chosen %o (auth uid=%d gid=%d)",
		     when, p, m, st.st_uid, st.st_gid, allow, cur_uid, cur_gid);
	if (st.st_uid != my_uid && st.st_uid != cur_uid)
		viol("%s: %s owner %d is neither server nor authorised %d", when, p, st.st_uid, cur_uid);
	if (st.st_gid != getegid() && st.st_gid != cur_gid)
		viol("%s: %s group %d is neither server nor authorised %d", when, p, st.st_gid, cur_gid);
}

static void check_dir(const char *dir, const char *when)
{
	char p[512];
	DIR *d;
	struct dirent *e;
	if (!dir[0]) return;
	check_one(dir, 1, when);
	d = opendir(dir);
	if (!d) return;
	while ((e = readdir(d))) {
		if (e->d_name[0] == '.') continue;
		snprintf(p, sizeof p, "%s/%s", dir, e->d_name);
		check_one(p, 0, when);
	}
	closedir(d);
}

/* interposed: libqb's calls land here */
char *mkdtemp(char *tmpl)
{
	static char *(*real)(char *);
	if (!real) real = dlsym(RTLD_NEXT, "mkdtemp");
	char *r = real(tmpl);
	if (r && sh && getpid() == sh->server_pid) {
		snprintf(curdir, sizeof curdir, "%s", r);
		cur = NULL; cur_known = 0; in_handshake = 1;
		check_dir(curdir, "after mkdtemp");
	}
	return r;
}
int chown(const char *path, uid_t u, gid_t g)
{
	int r;
	int mine = sh && getpid() == sh->server_pid && in_handshake &&
		curdir[0] && strncmp(path, curdir, strlen(curdir)) == 0;
	if (mine) check_dir(curdir, "before chown");
	r = syscall(SYS_fchownat, AT_FDCWD, path, u, g, 0);
	if (mine) check_dir(curdir, "after chown");
	return r;
}
int chmod(const char *path, mode_t m)
{
	int r;
	int mine = sh && getpid() == sh->server_pid && in_handshake &&
		curdir[0] && strncmp(path, curdir, strlen(curdir)) == 0;
	if (mine) check_dir(curdir, "before chmod");
	r = syscall(SYS_fchmodat, AT_FDCWD, path, m);
	if (mine) check_dir(curdir, "after chmod");
	return r;
}

static struct slot *slot_by_pid(pid_t pid)
{
	for (int i = 0; i < NSLOT; i++)
		if (sh->s[i].pid == pid) return &sh->s[i];
	return NULL;
}

static int32_t s_accept(qb_ipcs_connection_t *c, uid_t uid, gid_t gid)
{
	struct qb_ipcs_connection_stats st;
	qb_ipcs_connection_stats_get(c, &st, 0);
	struct slot *s = slot_by_pid(st.client_pid);
	if (!s) return -EACCES;	/* somebody else's */
	check_dir(curdir, "in accept");
	s->accept_called++;
	s->seen_uid = uid; s->seen_gid = gid;
	cur = s;
	snprintf(s->dir, sizeof s->dir, "%s", curdir);
	if (s->set_auth) {
		qb_ipcs_connection_auth_set(c, s->auid, s->agid, s->amode);
		cur_uid = s->auid; cur_gid = s->agid; cur_mode = s->amode;
	} else {
		cur_uid = uid; cur_gid = gid; cur_mode = 0600;
	}
	if (s->decision == 0) cur_known = 1;
	return s->decision;
}

static void s_created(qb_ipcs_connection_t *c)
{
	struct qb_ipcs_connection_stats st;
	qb_ipcs_connection_stats_get(c, &st, 0);
	struct slot *s = slot_by_pid(st.client_pid);
	if (!s) return;
	s->created++;
	if (s->decision != 0)
		viol("connection_created for refused client pid %d (decision %d)", s->pid, s->decision);
	check_dir(curdir, "in created");
	/* final state: must be the authorised owner (we are root) */
	if (my_uid == 0) {
		char p[512]; struct stat stt; DIR *d = opendir(curdir); struct dirent *e;
		if (stat(curdir, &stt) == 0 && (stt.st_uid != cur_uid || stt.st_gid != cur_gid))
			viol("created: dir %s owned %d:%d, authorised %d:%d", curdir, stt.st_uid, stt.st_gid, cur_uid, cur_gid);
		while (d && (e = readdir(d))) {
			if (e->d_name[0] == '.') continue;
			snprintf(p, sizeof p, "%s/%s", curdir, e->d_name);
			if (lstat(p, &stt) == 0 && (stt.st_uid != cur_uid || stt.st_gid != cur_gid))
				viol("created: %s owned %d:%d, authorised %d:%d", p, stt.st_uid, stt.st_gid, cur_uid, cur_gid);
		}
		if (d) closedir(d);
	}
	in_handshake = 0;
}

static int32_t s_msg(qb_ipcs_connection_t *c, void *data, size_t size)
{
	struct tmsg *m = data;
	struct qb_ipcs_connection_stats st;
	struct qb_ipc_response_header r;
	qb_ipcs_connection_stats_get(c, &st, 0);
	sh->msgs_total++;
	if (size >= offsetof(struct tmsg, pad)) {
		struct slot *owner = slot_by_pid(st.client_pid);
		struct slot *sender = (m->slot >= 0 && m->slot < NSLOT) ? &sh->s[m->slot] : NULL;
		if (m->injected) sh->injected_seen++;
		if (!sender || sender->pid != m->pid) {
			viol("msg_process got a message from unknown sender slot %d pid %d", m->slot, m->pid);
		} else if (sender->decision != 0) {
			viol("msg_process got a message sent by REFUSED client pid %d (uid %d, decision %d) on the connection of pid %d",
			     m->pid, sender->euid, sender->decision, st.client_pid);
		} else if (sender != owner) {
			viol("msg_process: message of pid %d delivered on connection of pid %d", m->pid, st.client_pid);
		} else {
			sender->msgs++;
		}
	} else {
		viol("msg_process: short unknown message size %zu", size);
	}
	r.id = MSG_ID; r.size = sizeof r; r.error = 0;
	qb_ipcs_response_send(c, &r, sizeof r);
	return 0;
}

static int32_t s_closed(qb_ipcs_connection_t *c) { return 0; }
static void s_destroyed(qb_ipcs_connection_t *c) { }

static int32_t job_add(enum qb_loop_priority p, void *d, qb_loop_job_dispatch_fn f)
{ return qb_loop_job_add(loop, p, d, f); }
static int32_t dispatch_add(enum qb_loop_priority p, int32_t fd, int32_t ev, void *d, qb_ipcs_dispatch_fn_t f)
{ return qb_loop_poll_add(loop, p, fd, ev, d, f); }
static int32_t dispatch_mod(enum qb_loop_priority p, int32_t fd, int32_t ev, void *d, qb_ipcs_dispatch_fn_t f)
{ return qb_loop_poll_mod(loop, p, fd, ev, d, f); }
static int32_t dispatch_del(int32_t fd) { return qb_loop_poll_del(loop, fd); }

static void stop_check(void *d)
{
	qb_loop_timer_handle h;
	if (sh->stop) { qb_loop_stop(loop); return; }
	qb_loop_timer_add(loop, QB_LOOP_LOW, 20 * QB_TIME_NS_IN_MSEC, NULL, stop_check, &h);
}

static void run_server(void)
{
	struct qb_ipcs_service_handlers h = {
		.connection_accept = s_accept, .connection_created = s_created,
		.msg_process = s_msg, .connection_closed = s_closed,
		.connection_destroyed = s_destroyed };
	struct qb_ipcs_poll_handlers ph = {
		.job_add = job_add, .dispatch_add = dispatch_add,
		.dispatch_mod = dispatch_mod, .dispatch_del = dispatch_del };
	my_uid = geteuid();
	sh->server_pid = getpid();
	loop = qb_loop_create();
	for (int t = 0; t < 2; t++) {
		svc[t] = qb_ipcs_create(svcname[t], 0, t ? QB_IPC_SOCKET : QB_IPC_SHM, &h);
		qb_ipcs_poll_handlers_set(svc[t], &ph);
		if (qb_ipcs_run(svc[t]) != 0) { perror("qb_ipcs_run"); _exit(3); }
	}
	stop_check(NULL);
	sh->server_ready = 1;
	qb_loop_run(loop);
	for (int t = 0; t < 2; t++) qb_ipcs_destroy(svc[t]);
	qb_loop_destroy(loop);
	_exit(0);
}

/* ---------------------------------------------------------------- client */
static void inject_everywhere(int slot)
{
	/* a refused peer looks for datagram sockets of the server and writes to them */
	char line[512], pre[64];
	FILE *f = fopen("/proc/net/unix", "r");
	int fd = socket(AF_UNIX, SOCK_DGRAM, 0);
	if (!f || fd < 0) { if (f) fclose(f); if (fd >= 0) close(fd); return; }
	snprintf(pre, sizeof pre, "@/dev/shm/qb-%d-", sh->server_pid);
	while (fgets(line, sizeof line, f)) {
		char *p = strstr(line, pre);
		if (!p) continue;
		p[strcspn(p, "\n")] = 0;
		size_t l = strlen(p);
		while (l > 1 && p[l - 1] == '@') p[--l] = 0;	/* padding NULs are shown as @ */
		if (l < 9 || strcmp(p + l - 8, "-request") != 0) continue;
		struct sockaddr_un a;
		memset(&a, 0, sizeof a);
		a.sun_family = AF_UNIX;
		memcpy(a.sun_path + 1, p + 1, QB_MIN(l - 1, sizeof a.sun_path - 2));
		struct tmsg m;
		memset(&m, 0, sizeof m);
		m.hdr.id = MSG_ID; m.hdr.size = sizeof m;
		m.slot = slot; m.pid = getpid(); m.injected = 1;
		sendto(fd, &m, sizeof m, MSG_DONTWAIT, (struct sockaddr *)&a, sizeof a);
	}
	fclose(f);
	close(fd);
}

static void run_client(int idx, int inject)
{
	struct slot *s = &sh->s[idx];
	if (setgroups(0, NULL) != 0) _exit(9);
	if (setregid(s->rgid, s->egid) != 0) _exit(9);
	if (setreuid(s->ruid, s->euid) != 0) _exit(9);
	s->pid = getpid();
	if (s->raw) {
		struct sockaddr_un a; struct qb_ipc_connection_request rq; struct qb_ipc_connection_response rs;
		int fd = socket(AF_UNIX, SOCK_STREAM, 0);
		memset(&a, 0, sizeof a); a.sun_family = AF_UNIX;
		snprintf(a.sun_path + 1, sizeof a.sun_path - 1, "%s", svcname[s->transport]);
		if (connect(fd, (struct sockaddr *)&a, sizeof a) != 0) {
			s->err = errno; s->state = 2; _exit(0);
		}
		memset(&rq, 0, sizeof rq);
		rq.hdr.id = QB_IPC_MSG_AUTHENTICATE; rq.hdr.size = sizeof rq; rq.max_msg_size = s->maxmsg;
		/* handshake in two pieces, followed by a request right behind it */
		write(fd, &rq, 5); usleep(200); write(fd, (char *)&rq + 5, sizeof rq - 5);
		struct tmsg m; memset(&m, 0, sizeof m);
		m.hdr.id = MSG_ID; m.hdr.size = sizeof m; m.slot = idx; m.pid = getpid(); m.injected = 1;
		write(fd, &m, sizeof m);
		size_t got = 0; ssize_t n;
		while (got < sizeof rs && (n = read(fd, (char *)&rs + got, sizeof rs - got)) > 0) got += n;
		if (got != sizeof rs) { s->err = ENOTCONN; s->state = 2; }
		else if (rs.hdr.error != 0) { s->err = -rs.hdr.error; s->state = 2; }
		else { s->err = 0; s->state = 1; }
		if (s->state == 2) {
			write(fd, &m, sizeof m);
			if (inject) inject_everywhere(idx);
		}
		while (!s->go) usleep(100);
		close(fd);
		_exit(0);
	}
	errno = 0;
	qb_ipcc_connection_t *c = qb_ipcc_connect(svcname[s->transport], s->maxmsg);
	if (!c) {
		s->err = errno; s->state = 2;
		if (inject) inject_everywhere(idx);
		while (!s->go) usleep(100);
		_exit(0);
	}
	s->err = 0; s->state = 1;
	while (!s->go) usleep(100);
	struct tmsg m; struct qb_ipc_response_header r;
	memset(&m, 0, sizeof m);
	m.hdr.id = MSG_ID; m.hdr.size = sizeof m; m.slot = idx; m.pid = getpid();
	int n = 1 + (s->maxmsg % 3);
	for (int i = 0; i < n; i++) {
		struct iovec iov = { &m, sizeof m };
		ssize_t rc = qb_ipcc_sendv_recv(c, &iov, 1, &r, sizeof r, 2000);
		if (rc == sizeof r) s->sent_ok++;
	}
	qb_ipcc_disconnect(c);
	_exit(0);
}

/* ---------------------------------------------------------------- driver */
static int foreign_dir(const char *dname)
{
	/* a stale directory of some other program whose pids have been recycled: holds files that are not ours */
	char p[512]; int foreign = 0;
	snprintf(p, sizeof p, "/dev/shm/%s", dname);
	DIR *d = opendir(p); struct dirent *e;
	while (d && (e = readdir(d)))
		if (e->d_name[0] != '.' && !strstr(e->d_name, svcname[0]) && !strstr(e->d_name, svcname[1])) foreign = 1;
	if (d) closedir(d);
	return foreign;
}

static int leftovers(pid_t spid, pid_t cpid, char *out, size_t outl)
{
	char pre[64]; int n = 0;
	DIR *d = opendir("/dev/shm"); struct dirent *e;
	snprintf(pre, sizeof pre, "qb-%d-%d-", spid, cpid);
	while (d && (e = readdir(d)))
		if (strncmp(e->d_name, pre, strlen(pre)) == 0 && !foreign_dir(e->d_name)) { n++; snprintf(out, outl, "%s", e->d_name); }
	if (d) closedir(d);
	return n;
}

static void outside_check(struct slot *s)
{
	/* accepted and connected: look from outside */
	char pre[64], p[512], q[1024]; struct stat st;
	DIR *d = opendir("/dev/shm"); struct dirent *e;
	uid_t au = s->set_auth ? s->auid : s->euid;
	gid_t ag = s->set_auth ? s->agid : s->egid;
	mode_t am = s->set_auth ? s->amode : 0600;
	int found = 0;
	snprintf(pre, sizeof pre, "qb-%d-%d-", sh->server_pid, s->pid);
	while (d && (e = readdir(d))) {
		if (strncmp(e->d_name, pre, strlen(pre)) || foreign_dir(e->d_name)) continue;
		found++;
		snprintf(p, sizeof p, "/dev/shm/%s", e->d_name);
		if (stat(p, &st) == 0) {
			mode_t allow = (am & 07777) | ((am & 0444) >> 2);
			if ((st.st_mode & 07777) & ~allow) viol("outside: dir %s mode %o exceeds %o", p, st.st_mode & 07777, allow);
			if (st.st_uid != au || st.st_gid != ag) viol("outside: dir %s owned %d:%d want %d:%d", p, st.st_uid, st.st_gid, au, ag);
		}
		DIR *d2 = opendir(p); struct dirent *e2; int nf = 0;
		while (d2 && (e2 = readdir(d2))) {
			if (e2->d_name[0] == '.') continue;
			nf++;
			snprintf(q, sizeof q, "%s/%s", p, e2->d_name);
			if (lstat(q, &st)) continue;
			if ((st.st_mode & 07777) & ~(am & 07777)) viol("outside: %s mode %o exceeds %o", q, st.st_mode & 07777, am);
			if (st.st_uid != au || st.st_gid != ag) viol("outside: %s owned %d:%d want %d:%d", q, st.st_uid, st.st_gid, au, ag);
		}
		if (d2) closedir(d2);
		if (nf != (s->transport ? 1 : 6)) viol("outside: %s has %d files", p, nf);
	}
	if (d) closedir(d);
	if (found != 1) viol("accepted client pid %d has %d directories", s->pid, found);
}

static const uid_t uids[] = { 0, 1000, 12345, 12346, 65534 };
static const gid_t gids[] = { 0, 1000, 23456, 23457, 65534 };
static const mode_t modes[] = { 0600, 0660, 0666, 0640, 0400, 0440, 0060, 0000, 0606, 0700, 0777, 04600, 02660, 0200, 0604 };
static const int errs[] = { EACCES, EPERM, EAGAIN, ENOMEM, EINVAL, EBADMSG, EINTR, ENOENT, ESHUTDOWN, ENOTCONN, EMSGSIZE, ETIMEDOUT, EIO, 133, 1, 95 };
#define N(a) (sizeof(a)/sizeof((a)[0]))

static volatile sig_atomic_t term;
static void on_term(int s) { term = 1; }

int main(int argc, char **argv)
{
	unsigned seed = argc > 1 ? atoi(argv[1]) : 1;
	long iters = argc > 2 ? atol(argv[2]) : 1000;
	int maxbatch = argc > 3 ? atoi(argv[3]) : 6;
	int inject = argc > 4 ? atoi(argv[4]) : 1;
	int restrict_modes = argc > 5 ? atoi(argv[5]) : 0; /* 1: only modes containing 0600 */
	long ops = 0, nacc = 0, nref = 0;
	if (maxbatch > NSLOT) maxbatch = NSLOT;
	srand(seed);
	signal(SIGPIPE, SIG_IGN);
	signal(SIGTERM, on_term);	/* timeout(1): finish the batch, print the summary */
	sh = mmap(NULL, sizeof *sh, PROT_READ | PROT_WRITE, MAP_SHARED | MAP_ANONYMOUS, -1, 0);
	memset(sh, 0, sizeof *sh);
	snprintf(svcname[0], 64, "h2c05m%d", getpid());
	snprintf(svcname[1], 64, "h2c05s%d", getpid());
	pid_t sp = fork();
	if (sp == 0) run_server();
	while (!sh->server_ready) usleep(1000);

	for (long it = 0; it < iters && sh->viol == 0 && !term; it++) {
		int nb = 1 + rand() % maxbatch;
		pid_t kids[NSLOT];
		for (int i = 0; i < NSLOT; i++) memset(&sh->s[i], 0, sizeof sh->s[i]);
		for (int i = 0; i < nb; i++) {
			struct slot *s = &sh->s[i];
			s->transport = rand() & 1;
			s->raw = (rand() % 5) == 0;
			s->euid = uids[rand() % N(uids)];
			s->ruid = (rand() & 1) ? s->euid : uids[rand() % N(uids)];
			s->egid = gids[rand() % N(gids)];
			s->rgid = (rand() & 1) ? s->egid : gids[rand() % N(gids)];
			s->decision = (rand() % 3 == 0) ? -errs[rand() % N(errs)] : 0;
			s->set_auth = rand() % 3 == 0;
			if (s->set_auth) {
				s->auid = (rand() & 1) ? s->euid : uids[rand() % N(uids)];
				s->agid = (rand() & 1) ? s->egid : gids[rand() % N(gids)];
				s->amode = modes[rand() % N(modes)];
				if (restrict_modes) s->amode |= 0600;
			}
			switch (rand() % 5) {
			case 0: s->maxmsg = 0; break;
			case 1: s->maxmsg = 1 + rand() % 200; break;
			case 2: s->maxmsg = 4096 - 3 + rand() % 6; break;
			case 3: s->maxmsg = 65536 + rand() % 3; break;
			default: s->maxmsg = 8192; break;
			}
			if (s->raw && s->maxmsg < sizeof(struct tmsg)) s->maxmsg = 8192;
			kids[i] = fork();
			if (kids[i] == 0) run_client(i, inject);
		}
		/* wait for all to connect or fail */
		for (int i = 0; i < nb; i++) {
			int w = 0;
			while (sh->s[i].state == 0 && w++ < 100000) usleep(100);
			if (sh->s[i].state == 0) viol("client %d stuck", i);
		}
		usleep(2000);
		for (int i = 0; i < nb; i++) {
			struct slot *s = &sh->s[i];
			ops++;
			if (s->accept_called != 1)
				viol("accept called %d times for pid %d (raw %d tr %d state %d err %d maxmsg %u dec %d)", s->accept_called, s->pid, s->raw, s->transport, s->state, s->err, s->maxmsg, s->decision);
			else if (s->seen_uid != s->euid || s->seen_gid != s->egid)
				viol("accept saw %d:%d, client effective %d:%d (real %d:%d)",
				     s->seen_uid, s->seen_gid, s->euid, s->egid, s->ruid, s->rgid);
			if (s->decision != 0) {
				char lo[128]; int w = 0;
				nref++;
				if (s->state != 2 || s->err != -s->decision)
					viol("refused with %d but client state %d err %d (raw %d tr %d)",
					     s->decision, s->state, s->err, s->raw, s->transport);
				while (leftovers(sh->server_pid, s->pid, lo, sizeof lo) && w++ < 2000) usleep(500);
				if (leftovers(sh->server_pid, s->pid, lo, sizeof lo))
					viol("refused client pid %d: %s remains", s->pid, lo);
				if (s->created) viol("refused client got connection_created");
			} else {
				nacc++;
				if (s->state == 1 && !s->raw) outside_check(s);
				if (s->state != 1 && !s->set_auth && !s->raw)
					viol("accepted by default but connect failed err %d (tr %d uid %d gid %d maxmsg %u)",
					     s->err, s->transport, s->euid, s->egid, s->maxmsg);
			}
		}
		for (int i = 0; i < nb; i++) sh->s[i].go = 1;
		for (int i = 0; i < nb; i++) { int st; waitpid(kids[i], &st, 0); }
		for (int i = 0; i < nb; i++) {
			struct slot *s = &sh->s[i];
			char lo[128]; int w = 0;
			if (s->decision != 0 && s->msgs) viol("refused client's messages counted");
			if (s->decision == 0 && s->state == 1 && !s->raw && s->sent_ok == 0)
				viol("accepted client could not exchange a message (tr %d)", s->transport);
			if (s->decision == 0 && s->state == 1 && !s->raw && s->msgs != s->sent_ok)
				fprintf(stderr, "note (not C05): accepted client: %d answered, %d seen by server (tr %d)\n", s->sent_ok, s->msgs, s->transport);
			while (leftovers(sh->server_pid, s->pid, lo, sizeof lo) && w++ < 4000) usleep(500);
			if (leftovers(sh->server_pid, s->pid, lo, sizeof lo))
				viol("after disconnect of pid %d: %s remains", s->pid, lo);
		}
	}
	sh->stop = 1;
	int st; waitpid(sp, &st, 0);
	printf("seed %u: %ld connects (%ld accepted, %ld refused), %ld msgs at server (%ld injected ones seen), violations %d, server exit %d\n",
	       seed, ops, nacc, nref, sh->msgs_total, sh->injected_seen, sh->viol, WIFEXITED(st) ? WEXITSTATUS(st) : -WTERMSIG(st));
	for (int i = 0; i < sh->viol && i < 8; i++) printf("  V%d: %s\n", i, sh->vmsg[i]);
	return sh->viol ? 1 : 0;
}
