"""qb.py - core of the libqb static rule engine.

Loads the fact files written by qbfacts (one per translation unit), gives each
function a CFG with event-level positions and offers the generic analyses the
rules in /verif/rules are instantiations of:

  dominators / post-dominators (blocks and events), edge guards (A1, A2),
  path search with stop/goal predicates (must-pass-through, may-reach),
  finite abstract evaluation of tracked expressions (A3), reaching stores,
  natural loops and upward-exposed uses (A10), CFG inlining of callees with a
  stated depth bound, whole-program call graph incl. function-pointer slots
  (A8, A9).

Nothing here looks at source text, line numbers or local variable names.
"""
import json
import os
import subprocess
import sys
import time
from concurrent.futures import ThreadPoolExecutor

VERIF = os.path.dirname(os.path.dirname(os.path.abspath(__file__)))
REPO = os.environ.get('QB_REPO', '/repo')
BUILD = os.path.join(VERIF, 'build')
QBFACTS = os.path.join(BUILD, 'qbfacts')
QBFACTS_SRC = os.path.join(VERIF, 'engine', 'qbfacts.cc')


class AnalysisBroken(Exception):
    """anchor vanished / unit does not parse / inconclusive instance: exit 2"""


# --------------------------------------------------------------------------
# building and running the extractor

def ensure_extractor():
    if os.path.exists(QBFACTS) and os.path.getmtime(QBFACTS) >= os.path.getmtime(QBFACTS_SRC):
        return
    os.makedirs(BUILD, exist_ok=True)
    cxxflags = subprocess.check_output(['llvm-config-14', '--cxxflags'], text=True).split()
    cmd = ['clang++'] + cxxflags + ['-fno-rtti', '-O1', '-w', QBFACTS_SRC, '-o', QBFACTS + '.tmp',
                                    '/usr/lib/llvm-14/lib/libclang-cpp.so.14',
                                    '/usr/lib/llvm-14/lib/libLLVM-14.so']
    r = subprocess.run(cmd, capture_output=True, text=True)
    if r.returncode != 0:
        raise AnalysisBroken('cannot build qbfacts: ' + r.stderr[-2000:])
    os.replace(QBFACTS + '.tmp', QBFACTS)


def resource_dir():
    try:
        return subprocess.check_output(['clang-14', '-print-resource-dir'], text=True).strip()
    except Exception:
        return '/usr/lib/llvm-14/lib/clang/14.0.6'


def _make_var(makefile, name):
    """value of a simple `NAME = value` line of a generated Makefile"""
    try:
        for line in open(makefile, errors='replace'):
            if line.startswith(name + ' =') or line.startswith(name + '='):
                return line.split('=', 1)[1].strip()
    except OSError:
        pass
    return None


def lib_units(repo=None):
    """translation units of libqb as lib/Makefile.am lists them, resolved
    against config.h for the conditional sources; plus tools/qb_blackbox.c"""
    repo = repo or REPO
    am = open(os.path.join(repo, 'lib', 'Makefile.am'), errors='replace').read()
    am = am.replace('\\\n', ' ')
    vars_ = {}
    cond_stack = []
    cfg = ''
    for p in ('include/config.h',):
        try:
            cfg += open(os.path.join(repo, p), errors='replace').read()
        except OSError:
            pass
    have = {
        'HAVE_SEM_TIMEDWAIT': '#define HAVE_SEM_TIMEDWAIT 1' in cfg,
        'HAVE_EPOLL': '#define HAVE_EPOLL_CREATE1 1' in cfg or '#define HAVE_EPOLL_CREATE 1' in cfg,
        'HAVE_KQUEUE': '#define HAVE_KQUEUE 1' in cfg,
        'HAVE_POLL': True,
    }
    srcs = []
    for line in am.split('\n'):
        s = line.strip()
        if s.startswith('if '):
            c = s[3:].strip()
            neg = c.startswith('!')
            c = c.lstrip('!')
            cond_stack.append(have.get(c, False) != neg)
            continue
        if s == 'else':
            if cond_stack:
                cond_stack[-1] = not cond_stack[-1]
            continue
        if s == 'endif':
            if cond_stack:
                cond_stack.pop()
            continue
        if not all(cond_stack):
            continue
        for key in ('source_to_lint', 'libqb_la_SOURCES'):
            if s.startswith(key):
                rest = s[len(key):].strip()
                if rest.startswith('+='):
                    val = rest[2:]
                    vars_[key] = vars_.get(key, '') + ' ' + val
                elif rest.startswith('='):
                    vars_[key] = rest[1:]
    text = vars_.get('libqb_la_SOURCES', '').replace('$(source_to_lint)', vars_.get('source_to_lint', ''))
    for tok in text.split():
        if tok.endswith('.c') and tok not in srcs:
            srcs.append(tok)
    units = ['lib/' + s for s in srcs]
    # LIBOBJS replacements used by the build (strlcpy/strlcat) when present in lib/
    for extra in ('lib/strlcpy.c', 'lib/strlcat.c', 'lib/strchrnul.c'):
        if os.path.exists(os.path.join(repo, extra)) and extra not in units:
            base = os.path.basename(extra)[:-2]
            if ('#define HAVE_%s 1' % base.upper()) not in cfg:
                units.append(extra)
    if os.path.exists(os.path.join(repo, 'tools/qb_blackbox.c')):
        units.append('tools/qb_blackbox.c')
    return units


def cc_flags(repo=None, extra=(), pre=()):
    repo = repo or REPO
    mk = os.path.join(repo, 'lib', 'Makefile')
    defs = _make_var(mk, 'DEFS') or '-DHAVE_CONFIG_H'
    cpp = _make_var(mk, 'CPPFLAGS') or ''
    flags = list(pre) + defs.split() + [f for f in cpp.split() if f.startswith(('-D', '-U', '-I'))]
    flags += ['-I%s/include' % repo, '-I%s/include/qb' % repo, '-I%s/lib' % repo,
              '-std=gnu17', '-UNDEBUG', '-w']
    flags += list(extra)
    return flags


def extract(units, repo=None, outdir=None, extra_flags=(), jobs=16, config_undef=()):
    """run qbfacts on every unit (in parallel, one output file each)"""
    repo = repo or REPO
    ensure_extractor()
    outdir = outdir or os.path.join(BUILD, 'facts')
    os.makedirs(outdir, exist_ok=True)
    pre = []
    if config_undef:
        # alternative configuration: a private copy of config.h with some HAVE_* lines removed,
        # found first on the include path
        alt = os.path.join(outdir, '_altcfg')
        os.makedirs(alt, exist_ok=True)
        src = open(os.path.join(repo, 'include', 'config.h'), errors='replace').read().split('\n')
        keep = [l for l in src if not any(l.startswith('#define %s ' % u) or l.strip() == '#define %s' % u for u in config_undef)]
        if len(keep) == len(src):
            raise AnalysisBroken('alternative configuration: none of %s is defined in config.h' % (list(config_undef),))
        open(os.path.join(alt, 'config.h'), 'w').write('\n'.join(keep))
        pre = ['-I' + alt]
    flags = cc_flags(repo, extra_flags, pre)
    rdir = resource_dir()

    def one(u):
        out = os.path.join(outdir, u.replace('/', '__') + '.json')
        src = os.path.join(repo, u)
        if not os.path.exists(src):
            raise AnalysisBroken('unit %s does not exist' % u)
        try:
            os.unlink(out)
        except OSError:
            pass
        cmd = [QBFACTS, src, '-o', out, '--root', repo, '--', '-resource-dir', rdir] + flags
        r = subprocess.run(cmd, capture_output=True, text=True)
        if r.returncode != 0 or not os.path.exists(out):
            raise AnalysisBroken('unit %s does not parse: %s' % (u, (r.stderr or r.stdout)[-1500:]))
        return out

    with ThreadPoolExecutor(max_workers=jobs) as ex:
        outs = list(ex.map(one, units))
    return outs


# --------------------------------------------------------------------------
# expression helpers

def walk(e):
    """all sub-nodes of an expression tree, pre-order"""
    if not isinstance(e, dict):
        return
    yield e
    for k in ('b', 'i', 'e', 'l', 'r', 'c', 't', 'f', 'ce', 'last', 'ofe'):
        v = e.get(k)
        if isinstance(v, dict):
            yield from walk(v)
    for a in e.get('args', ()) or ():
        yield from walk(a)
    for a in e.get('kids', ()) or ():
        yield from walk(a)
    for it in e.get('items', ()) or ():
        yield from walk(it.get('e'))


def cval(e):
    """constant value of an expression or None"""
    if not isinstance(e, dict):
        return None
    if 'cv' in e:
        return e['cv']
    if 'cvs' in e:
        return int(e['cvs'])
    return None


def unwrap(e):
    """strip casts, __builtin_expect, statement expressions and the left operand of a comma"""
    while isinstance(e, dict):
        k = e.get('k')
        if k == 'cast':
            e = e['e']
        elif k == 'call' and e.get('fn') == '__builtin_expect':
            e = e['args'][0]
        elif k == 'stmtexpr' and 'last' in e:
            e = e['last']
        elif k == 'bin' and e.get('op') == ',':
            e = e['r']          # the value of (a, b) is b; a's events are CFG elements of their own
        else:
            break
    return e


def estr(e, keep_casts=False):
    """canonical text of an expression (casts dropped unless asked)"""
    if not isinstance(e, dict):
        return '?'
    k = e.get('k')
    if k == 'int':
        return str(cval(e))
    if k == 'enum':
        return e['n']
    if k in ('var', 'fn', 'ref'):
        return e['n']
    if k == 'str':
        return json.dumps(e.get('v', ''))
    if k == 'mem':
        return estr(e['b'], keep_casts) + ('->' if e.get('arrow') else '.') + e['f']
    if k == 'idx':
        return '%s[%s]' % (estr(e['b'], keep_casts), estr(e['i'], keep_casts))
    if k == 'deref':
        return '*' + estr(e['e'], keep_casts)
    if k == 'addr':
        return '&' + estr(e['e'], keep_casts)
    if k == 'un':
        op = e['op']
        if op.startswith('post'):
            return estr(e['e'], keep_casts) + op[4:]
        if op.endswith('pre'):
            return op[:2] + estr(e['e'], keep_casts)
        return op + estr(e['e'], keep_casts)
    if k == 'bin':
        return '(%s %s %s)' % (estr(e['l'], keep_casts), e['op'], estr(e['r'], keep_casts))
    if k == 'cond':
        return '(%s ? %s : %s)' % (estr(e['c'], keep_casts), estr(e['t'], keep_casts), estr(e['f'], keep_casts))
    if k == 'cast':
        if keep_casts:
            return '(%s)%s' % (e.get('ty'), estr(e['e'], keep_casts))
        return estr(e['e'], keep_casts)
    if k == 'call':
        name = e.get('fn') or estr(e.get('ce'), keep_casts)
        return '%s(%s)' % (name, ', '.join(estr(a, keep_casts) for a in e.get('args', [])))
    if k == 'sizeof':
        return 'sizeof(%s)' % e.get('of')
    if k == 'stmtexpr':
        return '({%s})' % estr(e.get('last'), keep_casts)
    if k == 'init':
        return '{%s}' % ', '.join(('.%s=' % it['f'] if 'f' in it else '') + estr(it['e']) for it in e['items'])
    if k == 'va_arg':
        return 'va_arg(%s)' % e.get('ty')
    if k == 'offsetof':
        return str(cval(e))
    if k == 'flt':
        return 'FLT'
    if k == 'null':
        return 'NULL'
    return '<%s>' % e.get('cls', k)


def root_var(e):
    """the variable an lvalue / pointer expression is rooted at, or None"""
    e = unwrap(e)
    while isinstance(e, dict):
        k = e.get('k')
        if k == 'var':
            return e
        if k in ('mem', 'idx'):
            e = unwrap(e['b'])
        elif k in ('deref', 'addr', 'cast'):
            e = unwrap(e['e'])
        elif k == 'bin' and e['op'] in ('+', '-'):
            e = unwrap(e['l'])
        else:
            return None
    return None


def fields_of(e):
    """set of (record, field) pairs mentioned anywhere in the expression"""
    return {(n.get('rec'), n['f']) for n in walk(e) if n.get('k') == 'mem'}


def field_chain(e):
    """list of field names of an access path, outermost last; [] if none"""
    out = []
    e = unwrap(e)
    while isinstance(e, dict):
        k = e.get('k')
        if k == 'mem':
            out.append(e['f'])
            e = unwrap(e['b'])
        elif k == 'idx':
            e = unwrap(e['b'])
        elif k in ('deref', 'addr'):
            e = unwrap(e['e'])
        else:
            break
    out.reverse()
    return out


def last_field(e):
    """(record, field) of the outermost member access of an lvalue, through
    subscripts, or None"""
    e = unwrap(e)
    while isinstance(e, dict):
        k = e.get('k')
        if k == 'mem':
            return (e.get('rec'), e['f'])
        if k == 'idx':
            e = unwrap(e['b'])
        elif k in ('deref', 'addr'):
            e = unwrap(e['e'])
        else:
            return None
    return None


def callee_of(e):
    """resolved callee of a call node: function name, or 'rec::field' slot for
    a call through a function-pointer field, or 'var:<name>' for a pointer
    variable"""
    if e.get('k') != 'call':
        return None
    if e.get('fn'):
        return e['fn']
    ce = unwrap(e.get('ce'))
    if isinstance(ce, dict):
        if ce.get('k') == 'deref':
            ce = unwrap(ce['e'])
        if ce.get('k') == 'mem':
            return '%s::%s' % (ce.get('rec'), ce['f'])
        if ce.get('k') == 'var':
            return 'var:' + ce['n']
    return 'indirect:?'


def mentions_var(e, name):
    return any(n.get('k') == 'var' and n['n'] == name for n in walk(e))


def calls_in(e):
    return [n for n in walk(e) if n.get('k') == 'call']


# --------------------------------------------------------------------------
# conditions -> atoms

NEG = {'==': '!=', '!=': '==', '<': '>=', '>=': '<', '>': '<=', '<=': '>'}
SWAP = {'==': '==', '!=': '!=', '<': '>', '>': '<', '<=': '>=', '>=': '<='}


class Atom:
    """atomic comparison  lhs op rhs  (rhs a constant when rc is not None)"""
    __slots__ = ('l', 'op', 'r', 'ls', 'rs', 'rc', 'lc')

    def __init__(self, l, op, r):
        self.l, self.op, self.r = l, op, r
        self.ls, self.rs = estr(l), estr(r)
        self.rc, self.lc = cval(unwrap(r)), cval(unwrap(l))

    def __repr__(self):
        return '%s %s %s' % (self.ls, self.op, self.rs)

    def key(self):
        return (self.ls, self.op, self.rs)


ZERO = {'k': 'int', 'cv': 0, 'ty': 'int'}
MIRROR = {'<': '>', '>': '<', '<=': '>=', '>=': '<=', '==': '==', '!=': '!='}


def atoms_of(cond, sense):
    """the conjunction of atoms known to hold when `cond` evaluated to `sense`.
    Disjunctions contribute nothing (sound: fewer facts)."""
    c = unwrap(cond)
    if not isinstance(c, dict):
        return []
    k = c.get('k')
    if k == 'un' and c['op'] == '!':
        return atoms_of(c['e'], not sense)
    if k == 'bin':
        op = c['op']
        if op == '&&':
            if sense:
                return atoms_of(c['l'], True) + atoms_of(c['r'], True)
            return []
        if op == '||':
            if not sense:
                return atoms_of(c['l'], False) + atoms_of(c['r'], False)
            return []
        if op in NEG:
            l, r = c['l'], c['r']
            # (x) == 0 / != 0 where x is itself a condition
            # orientation is not meaning: a constant on the left is mirrored to the right (0 > x  ==  x < 0); a comparison of
            # two non-constants is reported in both orientations, so that a predicate written for `a < b` also sees `b > a`
            if cval(unwrap(l)) is not None and cval(unwrap(r)) is None:
                l, r, op = r, l, MIRROR[op]
            lu = unwrap(l)
            if cval(unwrap(r)) == 0 and op in ('==', '!=') and isinstance(lu, dict) and \
                    (lu.get('k') == 'un' and lu['op'] == '!' or lu.get('k') == 'bin' and lu['op'] in NEG or
                     lu.get('k') == 'bin' and lu['op'] in ('&&', '||')):
                return atoms_of(lu, sense == (op == '!='))
            o = op if sense else NEG[op]
            if cval(unwrap(r)) is None and cval(unwrap(l)) is None:
                return [Atom(l, o, r), Atom(r, MIRROR[o], l)]
            return [Atom(l, o, r)]
    # truthiness of an arbitrary value
    return [Atom(c, '!=' if sense else '==', ZERO)]


def cond_cut(cond, sense, pred):
    """does knowing `cond == sense` establish an atom satisfying pred whichever way it came about?
    conjunctions need one such conjunct, disjunctions need it in every disjunct (a value merged by the CFG, e.g.
    `!(a || b)` as a whole condition, is decided the same way as the split form)"""
    c = unwrap(cond)
    if isinstance(c, dict):
        if c.get('k') == 'un' and c['op'] == '!':
            return cond_cut(c['e'], not sense, pred)
        if c.get('k') == 'bin' and c['op'] in ('&&', '||'):
            conj = (c['op'] == '&&') == bool(sense)
            l, r = cond_cut(c['l'], sense, pred), cond_cut(c['r'], sense, pred)
            return (l or r) if conj else (l and r)
        if c.get('k') == 'bin' and c['op'] in ('==', '!=') and cval(unwrap(c['r'])) == 0:
            lu = unwrap(c['l'])
            if isinstance(lu, dict) and (lu.get('k') == 'un' and lu['op'] == '!' or lu.get('k') == 'bin' and lu['op'] in ('&&', '||')):
                return cond_cut(lu, sense == (c['op'] == '!='), pred)
    return any(pred(a) for a in atoms_of(cond, sense))


def cmp_forms(e):
    """both orientations [(l, op, r), (r, mirrored op, l)] of a comparison expression, [] for anything else -
    for rules that match a comparison directly rather than through atoms_of"""
    c = unwrap(e)
    if not isinstance(c, dict) or c.get('k') != 'bin' or c['op'] not in MIRROR:
        return []
    return [(c['l'], c['op'], c['r']), (c['r'], MIRROR[c['op']], c['l'])]


# --------------------------------------------------------------------------
# functions, blocks, events

class Ev:
    __slots__ = ('kind', 'blk', 'idx', 'd', 'fn', 'inl')

    def __init__(self, d, blk, idx, fn, inl=()):
        self.d = d
        self.kind = d['ev']
        self.blk = blk
        self.idx = idx
        self.fn = fn
        self.inl = inl  # chain of callee names when this event was inlined

    @property
    def e(self):
        return self.d.get('e')

    @property
    def lhs(self):
        return self.d.get('lhs')

    @property
    def rhs(self):
        return self.d.get('rhs')

    @property
    def ln(self):
        return self.d.get('ln', 0)

    @property
    def file(self):
        return self.d.get('file') or self.d.get('_file') or self.fn.file

    @property
    def callee(self):
        return callee_of(self.d['e']) if self.kind == 'CALL' else None

    @property
    def args(self):
        return self.d['e'].get('args', []) if self.kind == 'CALL' else []

    def loc(self):
        return '%s:%d' % (self.file, self.ln)

    def __repr__(self):
        if self.kind == 'CALL':
            s = estr(self.e)
        elif self.kind == 'STORE':
            s = '%s %s %s' % (estr(self.lhs), self.d['op'], estr(self.rhs) if self.rhs else '')
        elif self.kind == 'DECL':
            s = '%s = %s' % (self.d['var'], estr(self.d.get('init')) if self.d.get('init') else '-')
        elif self.kind in ('LOAD', 'RETURN'):
            s = estr(self.e) if self.e else ''
        else:
            s = ''
        return '%s@%s[%s %s]' % (self.kind, self.loc(), s, '<-' + '<-'.join(self.inl) if self.inl else '')

    def brief(self):
        return {'kind': self.kind, 'loc': self.loc(), 'text': repr(self)[:300]}


class Pos:
    """a program point: just before event idx of block blk"""
    __slots__ = ('blk', 'idx')

    def __init__(self, blk, idx):
        self.blk, self.idx = blk, idx


class Block:
    __slots__ = ('id', 'events', 'succs', 'preds', 'cond', 'noreturn', 'term', 'label', 'term_ln', 'term_op')

    def __init__(self, bid):
        self.id = bid
        self.events = []
        self.succs = []   # list of (to, label) label: True/False/('case',v[,hi])/'default'/None
        self.preds = []
        self.cond = None
        self.noreturn = False
        self.term = None
        self.term_op = None
        self.label = None
        self.term_ln = 0


class Fn:
    def __init__(self, d, unit):
        self.d = d
        self.name = d['name']
        self.file = d['file']
        self.line = d['line']
        self.unit = unit
        self.static = d.get('static', False)
        self.params = d.get('params', [])
        self.ret = d.get('ret')
        self.blocks = {}
        self.entry = d.get('entry')
        self.exit = d.get('exit')
        if d.get('cfg_failed'):
            raise AnalysisBroken('CFG construction failed for %s' % self.name)
        for bd in d['blocks']:
            b = Block(bd['id'])
            b.cond = bd.get('cond')
            b.noreturn = bd.get('noreturn', False)
            b.term = bd.get('term')
            b.term_op = bd.get('term_op')
            b.term_ln = bd.get('term_ln', 0)
            b.label = bd.get('label')
            for i, ed in enumerate(bd['events']):
                # x += 1 / x -= 1 are the same stores as x++ / x--: one canonical form for the rules
                if ed.get('ev') == 'STORE' and ed.get('op') in ('+=', '-=') and cval(unwrap(ed.get('rhs'))) == 1:
                    ed = dict(ed, op='++' if ed['op'] == '+=' else '--')
                    ed.pop('rhs', None)
                b.events.append(Ev(ed, b.id, i, self))
            if not b.noreturn:
                for s in bd['succs']:
                    if s.get('unreachable'):
                        continue
                    if 'sense' in s:
                        lab = bool(s['sense'])
                    elif 'case' in s:
                        lab = ('case', s['case'], s.get('case_hi', s['case']), s.get('case_name'))
                    elif s.get('default'):
                        lab = 'default'
                    else:
                        lab = None
                    b.succs.append((s['to'], lab))
            self.blocks[b.id] = b
        self._finish()

    # -- construction helpers
    def _finish(self):
        for b in self.blocks.values():
            b.preds = []
        for b in self.blocks.values():
            for (t, _l) in b.succs:
                self.blocks[t].preds.append(b.id)
        for b in self.blocks.values():
            for i, ev in enumerate(b.events):
                ev.blk, ev.idx = b.id, i
        self._dom = None
        self._pdom = None
        self._edom = None
        self._reach = None
        self._by_id = None

    # -- basic views
    def events(self, kind=None):
        for b in self.blocks.values():
            for ev in b.events:
                if kind is None or ev.kind == kind:
                    yield ev

    def calls(self, *names):
        """CALL events whose resolved callee is one of names (all if none given)"""
        for ev in self.events('CALL'):
            if not names or ev.callee in names:
                yield ev

    def stores(self, field=None, rec=None, var=None):
        """STORE events (and DECL with init for var=) by outermost field / variable"""
        for ev in self.events():
            if ev.kind == 'STORE':
                if field is not None:
                    lf = last_field(ev.lhs)
                    if lf and lf[1] == field and (rec is None or lf[0] == rec):
                        yield ev
                elif var is not None:
                    l = unwrap(ev.lhs)
                    if l.get('k') == 'var' and l['n'] == var:
                        yield ev
                else:
                    yield ev
            elif ev.kind == 'DECL' and var is not None and ev.d['var'] == var and 'init' in ev.d:
                yield ev

    def loads(self, field=None, rec=None):
        for ev in self.events('LOAD'):
            lf = last_field(ev.e)
            if lf and (field is None or lf[1] == field) and (rec is None or lf[0] == rec):
                yield ev

    def returns(self):
        return list(self.events('RETURN'))

    def ev_by_id(self, i):
        if self._by_id is None:
            self._by_id = {}
            for ev in self.events():
                self._by_id.setdefault(ev.d['id'], ev)
        return self._by_id.get(i)

    # -- dominators
    def _compute_dom(self, entry, succ_of, pred_of, nodes):
        # iterative dataflow; graphs are small
        order = []
        seen = set()
        stack = [(entry, iter(succ_of(entry)))]
        seen.add(entry)
        while stack:
            n, it = stack[-1]
            for s in it:
                if s not in seen:
                    seen.add(s)
                    stack.append((s, iter(succ_of(s))))
                    break
            else:
                order.append(n)
                stack.pop()
        order.reverse()
        dom = {n: None for n in order}
        dom[entry] = {entry}
        changed = True
        while changed:
            changed = False
            for n in order:
                if n == entry:
                    continue
                ps = [dom[p] for p in pred_of(n) if p in dom and dom[p] is not None]
                if not ps:
                    continue
                new = set.intersection(*ps) | {n}
                if new != dom[n]:
                    dom[n] = new
                    changed = True
        return dom

    def dom(self):
        """block id -> set of block ids dominating it (reachable blocks only)"""
        if self._dom is None:
            self._dom = self._compute_dom(
                self.entry,
                lambda n: [t for t, _ in self.blocks[n].succs],
                lambda n: self.blocks[n].preds,
                self.blocks)
        return self._dom

    def pdom(self):
        """block id -> set of block ids post-dominating it w.r.t. the normal
        exit (blocks that cannot reach the exit are absent)"""
        if self._pdom is None:
            self._pdom = self._compute_dom(
                self.exit,
                lambda n: self.blocks[n].preds,
                lambda n: [t for t, _ in self.blocks[n].succs],
                self.blocks)
        return self._pdom

    def controlling_blocks(self, blk):
        """control dependence: ids of the branching blocks that decide whether block `blk` executes - blk post-dominates (or is) one
        successor and not another.  Unlike guards() this sees every branch, also those whose condition yields no atom (a disjunction)."""
        pd = self.pdom()

        def direct(x):
            res = []
            for fb, b in self.blocks.items():
                if b.cond is None or len(b.succs) < 2 or fb == x:
                    continue
                sure = [(t == x) or (x in pd.get(t, set())) for (t, _l) in b.succs]
                if any(sure) and not all(sure):
                    res.append(fb)
            return res
        # transitively: a branch that decides whether a deciding branch is reached decides too
        out, work = set(), [blk]
        while work:
            x = work.pop()
            for fb in direct(x):
                if fb not in out:
                    out.add(fb)
                    work.append(fb)
        return sorted(out)

    def reachable_blocks(self):
        return set(self.dom().keys())

    def ev_dominates(self, a, b):
        """event a is on every path from entry to event b (before it)"""
        if a.blk == b.blk:
            return a.idx < b.idx
        d = self.dom().get(b.blk)
        return d is not None and a.blk in d

    def ev_postdominates(self, a, b):
        """event a is on every path from event b to the normal exit"""
        if a.blk == b.blk:
            return a.idx > b.idx
        d = self.pdom().get(b.blk)
        return d is not None and a.blk in d

    # -- edge guards
    def edge_dom(self):
        """block id -> list of (from, to, label) edges that dominate the block"""
        if self._edom is not None:
            return self._edom
        # augmented graph with a virtual node per edge
        succ = {}
        pred = {}
        enodes = {}
        for b in self.blocks.values():
            succ.setdefault(b.id, [])
            for k, (t, lab) in enumerate(b.succs):
                en = ('e', b.id, k)
                enodes[en] = (b.id, t, lab)
                succ[b.id].append(en)
                succ[en] = [t]
                pred.setdefault(en, []).append(b.id)
                pred.setdefault(t, []).append(en)
        dom = self._compute_dom(self.entry, lambda n: succ.get(n, []), lambda n: pred.get(n, []), None)
        out = {}
        for n, ds in dom.items():
            if isinstance(n, tuple) or ds is None:
                continue
            out[n] = [enodes[x] for x in ds if isinstance(x, tuple)]
        self._edom = out
        return out

    def guards(self, ev_or_blk):
        """atoms known to hold whenever the event (or block) executes: from the
        labelled edges dominating it.  Each item: (Atom, (from,to,label)).
        No kill analysis here; see guards_live()."""
        blk = ev_or_blk.blk if isinstance(ev_or_blk, Ev) else ev_or_blk
        res = []
        for (f, t, lab) in self.edge_dom().get(blk, []):
            fb = self.blocks[f]
            if fb.cond is None:
                continue
            if lab is True or lab is False:
                for a in atoms_of(fb.cond, lab):
                    res.append((a, (f, t, lab)))
            elif isinstance(lab, tuple) and lab[0] == 'case' and lab[1] == lab[2]:
                res.append((Atom(fb.cond, '==', {'k': 'int', 'cv': lab[1], 'n': lab[3]}), (f, t, lab)))
        return res

    def guards_live(self, ev):
        """guards(ev) minus those whose operands may be overwritten on a path
        from the guarding edge to the event"""
        res = []
        for (a, edge) in self.guards(ev):
            names = {n['n'] for n in walk(a.l) if n.get('k') == 'var'} | \
                    {n['n'] for n in walk(a.r) if n.get('k') == 'var'}
            flds = fields_of(a.l) | fields_of(a.r)
            killed = False
            for st in self.events_between_edge_and(edge, ev):
                k = False
                if st.kind == 'STORE':
                    l = unwrap(st.lhs)
                    if l.get('k') == 'var' and l['n'] in names:
                        k = True
                    lf = last_field(st.lhs)
                    if lf and lf in flds and estr(st.lhs) in (a.ls, a.rs) or \
                            (lf and any(estr(st.lhs) == estr(n) for n in list(walk(a.l)) + list(walk(a.r)))):
                        k = True
                elif st.kind == 'DECL' and st.d['var'] in names:
                    k = True
                elif st.kind == 'CALL':
                    # &var passed to a call may overwrite it
                    for arg in st.args:
                        au = unwrap(arg)
                        if au.get('k') == 'addr':
                            rv = root_var(au)
                            if rv is not None and rv['n'] in names and unwrap(au['e']).get('k') == 'var':
                                k = True
                if k:
                    # it only kills if the event can be reached from the store without taking the guarding edge again
                    (gf, gt, _gl) = edge
                    hits, _e, _n = self.search(('after', st), goal=lambda x: x is ev or x.d is ev.d,
                                               edge_filter=lambda fb, t, lab: not (fb.id == gf and t == gt))
                    if hits:
                        killed = True
                        break
            if not killed:
                res.append((a, edge))
        return res

    def _block_reach(self):
        """block -> set of blocks reachable from it (>=1 edge)"""
        if self._reach is None:
            self._reach = {}
            for b in self.blocks:
                seen = set()
                st = [t for t, _ in self.blocks[b].succs]
                while st:
                    n = st.pop()
                    if n in seen:
                        continue
                    seen.add(n)
                    st.extend(t for t, _ in self.blocks[n].succs)
                self._reach[b] = seen
        return self._reach

    def events_between_edge_and(self, edge, ev):
        """events that can execute after taking `edge` and before `ev`"""
        (f, t, lab) = edge
        R = self._block_reach()
        res = []
        region = ({t} | R[t])
        for bid in region:
            if bid != ev.blk and ev.blk not in R[bid]:
                continue
            for x in self.blocks[bid].events:
                if bid == ev.blk and x.idx >= ev.idx and ev.blk not in R[ev.blk]:
                    continue
                if x is ev:
                    continue
                res.append(x)
        return res

    def may_follow(self, a, b):
        """event b can execute after event a on some path"""
        if a.blk == b.blk and b.idx > a.idx:
            return True
        return b.blk in self._block_reach()[a.blk]

    # -- path search at event granularity
    def search(self, start, goal=None, stop=None, want_exit=False, want_noreturn=False,
               edge_filter=None):
        """walk forward from `start`; a path ends where `stop(ev)` is true
        (that event is not passed).  Collect events with `goal(ev)` true (the
        path continues through goals unless also stopped).  Returns
        (hits, exit_reached, noreturn_reached) where exit_reached is the list
        of block paths (as tuples of block ids) reaching the normal exit.

        start: ('entry',) | ('after', ev) | ('edge', from_blk, to_blk) |
               ('block', blk)
        edge_filter(from_block, to, label) -> bool : follow that edge?
        """
        hits = []
        exits = []
        norets = []
        seen = set()
        work = []
        if start[0] == 'entry':
            work.append((self.entry, 0, (self.entry,)))
        elif start[0] == 'after':
            ev = start[1]
            work.append((ev.blk, ev.idx + 1, (ev.blk,)))
        elif start[0] == 'edge':
            work.append((start[2], 0, (start[1], start[2])))
        elif start[0] == 'block':
            work.append((start[1], 0, (start[1],)))
        while work:
            bid, idx, path = work.pop()
            if (bid, idx) in seen:
                continue
            seen.add((bid, idx))
            b = self.blocks[bid]
            stopped = False
            for ev in b.events[idx:]:
                if goal is not None and goal(ev):
                    hits.append((ev, path))
                if stop is not None and stop(ev):
                    stopped = True
                    break
            if stopped:
                continue
            if b.noreturn:
                norets.append(path)
                continue
            if bid == self.exit:
                exits.append(path)
                continue
            for (t, lab) in b.succs:
                if edge_filter is not None and not edge_filter(b, t, lab):
                    continue
                if (t, 0) not in seen:
                    work.append((t, 0, path + (t,) if len(path) < 40 else path))
        return hits, exits, norets

    def must_pass(self, start, pred, edge_filter=None):
        """every path from start to the normal exit passes an event with
        pred(ev).  Returns (ok, offending block path or None)"""
        _h, exits, _n = self.search(start, stop=pred, edge_filter=edge_filter)
        return (not exits), (exits[0] if exits else None)

    def uncut_path(self, target, atom_pred, start=('entry',), also_stop=None):
        """cut-set query: is `target` (an event, or None for the normal exit)
        reachable from `start` without crossing a labelled edge that carries an
        atom with atom_pred(atom, from_block)?  Returns a block path if so (=
        the cut does not hold), else None."""
        def ef(fb, t, lab):
            if fb.cond is None:
                return True
            if lab is True or lab is False:
                return not cond_cut(fb.cond, lab, lambda a: atom_pred(a, fb))
            elif isinstance(lab, tuple) and lab[0] == 'case' and lab[1] == lab[2]:
                ats = [Atom(fb.cond, '==', {'k': 'int', 'cv': lab[1]})]
            else:
                return True
            return not any(atom_pred(a, fb) for a in ats)
        if target is None:
            _h, exits, _n = self.search(start, stop=also_stop, edge_filter=ef)
            return exits[0] if exits else None
        hits, _e, _n = self.search(start, goal=lambda ev: ev is target or ev.d is target.d, stop=also_stop, edge_filter=ef)
        return hits[0][1] if hits else None

    def end_of(self, bid):
        """program point after the last event of a block (where its condition
        is decided)"""
        return Pos(bid, len(self.blocks[bid].events))

    def path_lines(self, path):
        """human readable rendering of a block path"""
        out = []
        for bid in path:
            b = self.blocks[bid]
            ln = b.events[0].ln if b.events else b.term_ln
            out.append({'block': bid, 'line': ln})
        return out

    # -- loops
    def back_edges(self):
        d = self.dom()
        res = []
        for b in self.blocks.values():
            if b.id not in d:
                continue
            for (t, _l) in b.succs:
                if t in d[b.id]:
                    res.append((b.id, t))
        return res

    def natural_loops(self):
        """header -> set of block ids in the loop body (incl. header)"""
        loops = {}
        for (src, hdr) in self.back_edges():
            body = loops.setdefault(hdr, {hdr})
            st = [src]
            while st:
                n = st.pop()
                if n in body:
                    continue
                body.add(n)
                st.extend(self.blocks[n].preds)
        return loops

    # -- reaching stores to a local variable
    def reaching_defs(self, var, at_ev):
        """STORE/DECL events assigning local `var` that may reach at_ev without
        an intervening assignment; 'param' marker if the entry value reaches"""
        def is_def(ev):
            if ev.kind == 'STORE':
                l = unwrap(ev.lhs)
                return l.get('k') == 'var' and l['n'] == var
            if ev.kind == 'DECL':
                return ev.d['var'] == var
            if ev.kind == 'CALL':
                for arg in ev.args:
                    au = unwrap(arg)
                    if au.get('k') == 'addr' and unwrap(au['e']).get('k') == 'var' and unwrap(au['e'])['n'] == var:
                        return True
            return False
        # backward search
        res = []
        seen = set()
        work = [(at_ev.blk, at_ev.idx - 1)]
        entry_reaches = False
        while work:
            bid, idx = work.pop()
            b = self.blocks[bid]
            found = False
            i = idx
            while i >= 0:
                ev = b.events[i]
                if is_def(ev):
                    res.append(ev)
                    found = True
                    break
                i -= 1
            if found:
                continue
            if bid == self.entry:
                entry_reaches = True
            for p in b.preds:
                if p not in seen:
                    seen.add(p)
                    work.append((p, len(self.blocks[p].events) - 1))
        return res, entry_reaches


# --------------------------------------------------------------------------
# lockset (A4): forward must-analysis of held locks

LOCK_FNS = {'qb_thread_lock': 0, 'pthread_mutex_lock': 0, 'pthread_spin_lock': 0,
            'pthread_rwlock_wrlock': 0, 'pthread_rwlock_rdlock': 0}
UNLOCK_FNS = {'qb_thread_unlock': 0, 'pthread_mutex_unlock': 0, 'pthread_spin_unlock': 0,
              'pthread_rwlock_unlock': 0}


def lock_name(arg):
    a = unwrap(arg)
    if isinstance(a, dict) and a.get('k') == 'addr':
        a = unwrap(a['e'])
    lf = last_field(a)
    if lf:
        return lf[1]
    return estr(a)


def lockset(fn, entry=frozenset(), extra_lock=None, extra_unlock=None):
    """(block id, event index) -> frozenset of lock names certainly held just
    before that event.  Lock identity = outermost field / variable name of the
    argument.  extra_lock/extra_unlock: callee name -> lock name (wrappers)."""
    extra_lock = extra_lock or {}
    extra_unlock = extra_unlock or {}
    IN = {fn.entry: frozenset(entry)}
    work = [fn.entry]
    at = {}

    def transfer(bid, cur, record):
        cur = set(cur)
        for ev in fn.blocks[bid].events:
            if record:
                at[(bid, ev.idx)] = frozenset(cur)
            if ev.kind == 'CALL':
                c = ev.callee
                if c in LOCK_FNS and ev.args:
                    cur.add(lock_name(ev.args[LOCK_FNS[c]]))
                elif c in UNLOCK_FNS and ev.args:
                    cur.discard(lock_name(ev.args[UNLOCK_FNS[c]]))
                elif c in extra_lock:
                    cur.add(extra_lock[c])
                elif c in extra_unlock:
                    cur.discard(extra_unlock[c])
        return frozenset(cur)

    while work:
        b = work.pop()
        out = transfer(b, IN[b], False)
        for (t, _l) in fn.blocks[b].succs:
            new = out if t not in IN else (IN[t] & out)
            if t not in IN or new != IN[t]:
                IN[t] = new
                work.append(t)
    for b in IN:
        transfer(b, IN[b], True)
    return at, IN


# --------------------------------------------------------------------------
# interval sets for one local variable (A12)

def _iv_norm(iv):
    iv = sorted((lo, hi) for (lo, hi) in iv if lo <= hi)
    out = []
    for lo, hi in iv:
        if out and lo <= out[-1][1] + 1:
            out[-1] = (out[-1][0], max(out[-1][1], hi))
        else:
            out.append((lo, hi))
    return tuple(out)


def _iv_meet(iv, lo, hi):
    return _iv_norm([(max(a, lo), min(b, hi)) for (a, b) in iv])


def _iv_minus_point(iv, c):
    out = []
    for (a, b) in iv:
        if a <= c <= b:
            out += [(a, c - 1), (c + 1, b)]
        else:
            out.append((a, b))
    return _iv_norm(out)


def var_ranges(fn, var, bits, signed, rhs_range=None):
    """forward interval-set analysis of one local variable `var` of the given
    integer type.  Assignments from constants give points; from anything else
    rhs_range(expr) (default: the full type range).  Branch atoms `var op K`
    refine.  Returns {(blk, idx): intervals just before that event} and
    {blk: intervals at block entry}."""
    lo_t = -(1 << (bits - 1)) if signed else 0
    hi_t = (1 << (bits - 1)) - 1 if signed else (1 << bits) - 1
    full = ((lo_t, hi_t),)

    def wrap(c):
        if c is None:
            return None
        if signed:
            c &= (1 << bits) - 1
            return c - (1 << bits) if c >> (bits - 1) else c
        return c & ((1 << bits) - 1)

    def is_var(e):
        e = unwrap(e)
        return isinstance(e, dict) and e.get('k') == 'var' and e['n'] == var

    def assign(rhs):
        c = cval(unwrap(rhs)) if rhs is not None else None
        if c is not None:
            c = wrap(c)
            return ((c, c),)
        if rhs_range is not None and rhs is not None:
            r = rhs_range(rhs)
            if r is not None:
                return _iv_norm(r)
        return full

    def refine(iv, a):
        # a: Atom with var on one side, constant on the other
        if is_var(a.l) and a.rc is not None:
            op, c = a.op, wrap(a.rc)
        elif is_var(a.r) and a.lc is not None:
            op, c = SWAP[a.op], wrap(a.lc)
        else:
            return iv
        if op == '==':
            return _iv_meet(iv, c, c)
        if op == '!=':
            return _iv_minus_point(iv, c)
        if op == '<':
            return _iv_meet(iv, lo_t, c - 1)
        if op == '<=':
            return _iv_meet(iv, lo_t, c)
        if op == '>':
            return _iv_meet(iv, c + 1, hi_t)
        if op == '>=':
            return _iv_meet(iv, c, hi_t)
        return iv

    IN = {fn.entry: full}
    at = {}
    work = [fn.entry]
    rounds = 0
    while work:
        rounds += 1
        if rounds > 5000:
            raise AnalysisBroken('var_ranges: no fixpoint in %s' % fn.name)
        b = work.pop()
        cur = IN[b]
        for ev in fn.blocks[b].events:
            at[(b, ev.idx)] = cur
            if ev.kind == 'STORE' and is_var(ev.lhs):
                cur = assign(ev.rhs) if ev.d['op'] == '=' else full
            elif ev.kind == 'DECL' and ev.d['var'] == var:
                cur = assign(ev.d.get('init')) if 'init' in ev.d else full
            elif ev.kind == 'CALL':
                for arg in ev.args:
                    au = unwrap(arg)
                    if au.get('k') == 'addr' and is_var(au['e']):
                        cur = full
        blk = fn.blocks[b]
        for (t, lab) in blk.succs:
            out = cur
            if blk.cond is not None and lab in (True, False):
                for a in atoms_of(blk.cond, lab):
                    out = refine(out, a)
            if not out:
                continue      # infeasible edge
            new = out if t not in IN else _iv_norm(list(IN[t]) + list(out))
            if t not in IN or new != IN[t]:
                IN[t] = new
                work.append(t)
    return at, IN


# --------------------------------------------------------------------------
# finite abstract evaluation (A3)

TOP = object()


class Sym(str):
    """symbolic non-null value (the address/content of a named field); truthy,
    equal only to the same symbol"""
    __slots__ = ()


SYM_FIELDS = [False]


def _eval(e, env, prog=None):
    """evaluate expression under env: {estr: int}; returns int, Sym or TOP"""
    e = unwrap(e)
    if not isinstance(e, dict):
        return TOP
    s = estr(e)
    if s in env:
        return env[s]
    v = cval(e)
    if v is not None:
        return v
    k = e.get('k')
    if k == 'mem' and SYM_FIELDS[0]:
        return Sym(s)
    if k == 'un':
        x = _eval(e['e'], env)
        if x is TOP:
            return TOP
        if e['op'] == '!':
            return int(not x)
        if isinstance(x, Sym):
            return TOP
        if e['op'] == '-':
            return -x
        if e['op'] == '~':
            return ~x
        return TOP
    if k == 'bin':
        op = e['op']
        l = _eval(e['l'], env)
        if op == '&&':
            if l is not TOP and not l:
                return 0
            r = _eval(e['r'], env)
            if r is not TOP and not r:
                return 0
            if l is TOP or r is TOP:
                return TOP
            return 1
        if op == '||':
            if l is not TOP and l:
                return 1
            r = _eval(e['r'], env)
            if r is not TOP and r:
                return 1
            if l is TOP or r is TOP:
                return TOP
            return 0
        r = _eval(e['r'], env)
        if l is TOP or r is TOP:
            if op == '&' and (l == 0 or r == 0):
                return 0
            return TOP
        if isinstance(l, Sym) or isinstance(r, Sym):
            if op == '==':
                return int(l == r) if (isinstance(l, Sym) and isinstance(r, Sym)) else (0 if (l == 0 or r == 0) else TOP)
            if op == '!=':
                return int(l != r) if (isinstance(l, Sym) and isinstance(r, Sym)) else (1 if (l == 0 or r == 0) else TOP)
            return TOP
        try:
            return {
                '==': lambda: int(l == r), '!=': lambda: int(l != r),
                '<': lambda: int(l < r), '<=': lambda: int(l <= r),
                '>': lambda: int(l > r), '>=': lambda: int(l >= r),
                '+': lambda: l + r, '-': lambda: l - r, '*': lambda: l * r,
                '&': lambda: l & r, '|': lambda: l | r, '^': lambda: l ^ r,
                '<<': lambda: l << r, '>>': lambda: l >> r,
                '/': lambda: l // r if r else TOP, '%': lambda: l % r if r else TOP,
            }[op]()
        except KeyError:
            return TOP
    if k == 'cond':
        c = _eval(e['c'], env)
        if c is TOP:
            a, b = _eval(e['t'], env), _eval(e['f'], env)
            return a if a is not TOP and a == b else TOP
        return _eval(e['t'] if c else e['f'], env)
    return TOP


def abstract_run(fn, init_env, tracked=None, start=None, call_effect=None, max_states=20000, barrier=(), effect=None):
    """Explore fn's CFG with a constant environment over `tracked` expression
    strings (default: keys of init_env).  Branches whose condition evaluates
    to a constant follow only the feasible edge; stores to a tracked
    expression update it (to a constant or TOP=absent).
    call_effect(ev, env) -> None | dict of updates (value TOP to forget).
    Returns list of (event, env-as-dict) visits and the set of
    (exit_kind, env) terminal states; exit_kind in {'exit','noreturn'}."""
    tracked = set(tracked or init_env.keys())
    visits = []
    terms = []
    seen = set()
    sb = fn.entry if start is None else start
    work = [(sb, tuple(sorted(init_env.items())))]
    n = 0
    first = True
    while work:
        bid, envt = work.pop()
        if (bid, envt) in seen:
            continue
        seen.add((bid, envt))
        n += 1
        if n > max_states:
            raise AnalysisBroken('abstract_run: state explosion in %s' % fn.name)
        env = dict(envt)
        if bid in barrier and not first:
            terms.append(('barrier', env, bid))
            continue
        first = False
        b = fn.blocks[bid]
        for ev in b.events:
            visits.append((ev, dict(env)))
            skip_default = False
            if effect is not None:
                upd = effect(ev, env)
                if upd:
                    for k2, v2 in upd.items():
                        if k2 == '#skip':
                            skip_default = bool(v2)
                        elif v2 is TOP:
                            env.pop(k2, None)
                        else:
                            env[k2] = v2
            if skip_default:
                continue
            if ev.kind == 'STORE':
                ls = estr(ev.lhs)
                if ls in tracked:
                    op = ev.d['op']
                    if op == '=':
                        v = _eval(ev.rhs, env)
                    elif op in ('++', '--'):
                        cur = env.get(ls, TOP)
                        v = TOP if cur is TOP else cur + (1 if op == '++' else -1)
                    else:
                        cur = env.get(ls, TOP)
                        r = _eval(ev.rhs, env)
                        if cur is TOP or r is TOP:
                            v = TOP
                        else:
                            v = _eval({'k': 'bin', 'op': op[:-1], 'l': {'k': 'int', 'cv': cur}, 'r': {'k': 'int', 'cv': r}}, {})
                    if v is TOP:
                        env.pop(ls, None)
                    else:
                        env[ls] = v
            elif ev.kind == 'DECL' and ev.d['var'] in tracked:
                v = _eval(ev.d['init'], env) if 'init' in ev.d else TOP
                if v is TOP:
                    env.pop(ev.d['var'], None)
                else:
                    env[ev.d['var']] = v
            elif ev.kind == 'CALL' and call_effect is not None:
                upd = call_effect(ev, env)
                if upd:
                    for k2, v2 in upd.items():
                        if v2 is TOP:
                            env.pop(k2, None)
                        else:
                            env[k2] = v2
        if b.noreturn:
            terms.append(('noreturn', dict(env), bid))
            continue
        if bid == fn.exit:
            terms.append(('exit', dict(env), bid))
            continue
        cv = _eval(b.cond, env) if b.cond is not None else TOP
        for (t, lab) in b.succs:
            env2 = env
            if lab is True or lab is False:
                if cv is not TOP and bool(cv) != lab:
                    continue
                # refine: tracked expr compared with constant for equality
                if cv is TOP:
                    env2 = dict(env)
                    for a in atoms_of(b.cond, lab):
                        if a.op == '==' and a.ls in tracked and a.rc is not None:
                            env2[a.ls] = a.rc
                        elif a.op == '==' and a.rs in tracked and a.lc is not None:
                            env2[a.rs] = a.lc
            elif isinstance(lab, tuple) and lab[0] == 'case':
                if isinstance(cv, Sym):
                    cv = TOP
                if cv is not TOP and not (lab[1] <= cv <= lab[2]):
                    continue
                cs = estr(b.cond)
                if cv is TOP and cs in tracked and lab[1] == lab[2]:
                    env2 = dict(env)
                    env2[cs] = lab[1]
            elif lab == 'default':
                if cv is not TOP and not isinstance(cv, Sym):
                    # default only if no case matches
                    if any(isinstance(l2, tuple) and l2[1] <= cv <= l2[2] for (_t, l2) in b.succs):
                        continue
            work.append((t, tuple(sorted(env2.items()))))
    return visits, terms


# --------------------------------------------------------------------------
# program

class Program:
    def __init__(self, fact_files):
        self.units = {}
        self.fns = {}        # name -> [Fn] (deduplicated by file)
        self.records = {}
        self.enums = {}
        self.enum_consts = {}
        self.globals = {}
        self.types = {}
        self.decls = {}
        for p in fact_files:
            u = json.load(open(p))
            if u.get('errors'):
                raise AnalysisBroken('unit %s has %d parse errors' % (u['unit'], u['errors']))
            self.units[u['unit']] = u
            self.types.update(u.get('types', {}))
            for r in u['records']:
                self.records.setdefault(r['name'], r)
            for en in u['enums']:
                self.enums.setdefault(en['name'], en)
                for c in en['consts']:
                    self.enum_consts[c['n']] = c['v']
            for g in u['globals']:
                cur = self.globals.get(g['name'])
                if cur is None or ('init' in g and 'init' not in cur) or (cur.get('extern') and not g.get('extern')):
                    g['_unit'] = u['unit']
                    self.globals[g['name']] = g
            for d in u.get('decls', []):
                self.decls.setdefault(d['name'], d)
            for fd in u['functions']:
                lst = self.fns.setdefault(fd['name'], [])
                if any(f.file == fd['file'] and f.line == fd['line'] for f in lst):
                    continue
                lst.append(Fn(fd, u['unit']))
        self._slots = None
        self._callers = None

    def fn(self, name, file=None):
        """the unique definition of `name` (optionally in `file`); raises
        AnalysisBroken when the anchor is missing"""
        lst = self.fns.get(name, [])
        if file:
            lst = [f for f in lst if f.file == file or f.file.endswith('/' + file)]
        if not lst:
            raise AnalysisBroken('anchor function %s%s not found' % (name, ' in ' + file if file else ''))
        if len(lst) > 1:
            raise AnalysisBroken('anchor function %s is ambiguous: %s' % (name, [f.file for f in lst]))
        return lst[0]

    def has_fn(self, name):
        return bool(self.fns.get(name))

    def all_fns(self, files=None):
        for lst in self.fns.values():
            for f in lst:
                if files is None or f.file in files:
                    yield f

    def enum(self, name):
        if name not in self.enums:
            raise AnalysisBroken('anchor enum %s not found' % name)
        return {c['n']: c['v'] for c in self.enums[name]['consts']}

    def econst(self, name):
        if name not in self.enum_consts:
            raise AnalysisBroken('anchor enum constant %s not found' % name)
        return self.enum_consts[name]

    def record(self, name):
        if name not in self.records:
            raise AnalysisBroken('anchor record %s not found' % name)
        return self.records[name]

    def type_info(self, ty):
        return self.types.get(ty, {})

    # function-pointer slots: 'rec::field' -> set of function names stored
    def slots(self):
        if self._slots is not None:
            return self._slots
        slots = {}

        def note(rec, field, rhs):
            r = unwrap(rhs)
            if isinstance(r, dict) and r.get('k') == 'addr':
                r = unwrap(r['e'])
            if isinstance(r, dict) and r.get('k') == 'fn':
                slots.setdefault('%s::%s' % (rec, field), set()).add(r['n'])

        for f in self.all_fns():
            for ev in f.events('STORE'):
                lf = last_field(ev.lhs)
                if lf and ev.rhs is not None:
                    note(lf[0], lf[1], ev.rhs)
            for ev in f.events('DECL'):
                self._note_init(ev.d.get('init'), ev.d.get('ty'), note)
        for g in self.globals.values():
            self._note_init(g.get('init'), g.get('ty'), note)
        self._slots = slots
        return slots

    def _note_init(self, init, ty, note):
        if not isinstance(init, dict):
            return
        for n in walk(init):
            if n.get('k') == 'init':
                rec = n.get('ty', '')
                rec = rec.replace('struct ', '').replace('const ', '').strip()
                for it in n['items']:
                    if 'f' in it:
                        note(rec, it['f'], it['e'])

    def resolve(self, callee):
        """function names a callee string may denote"""
        if callee is None:
            return []
        if '::' in callee:
            return sorted(self.slots().get(callee, ()))
        return [callee] if callee in self.fns else []

    def callers(self):
        """callee name or slot -> list of (Fn, Ev)"""
        if self._callers is None:
            c = {}
            for f in self.all_fns():
                for ev in f.events('CALL'):
                    c.setdefault(ev.callee, []).append((f, ev))
            self._callers = c
        return self._callers

    def callers_of(self, name, include_slots=True):
        res = list(self.callers().get(name, []))
        if include_slots:
            for slot, impls in self.slots().items():
                if name in impls:
                    res += self.callers().get(slot, [])
        return res

    def writers(self, field, rec=None):
        """all STORE events in the program whose outermost lvalue field is
        (rec,) field -> list of (Fn, Ev)"""
        res = []
        for f in self.all_fns():
            for ev in f.stores(field=field, rec=rec):
                res.append((f, ev))
        return res

    def fn_refs(self, name):
        """places where function `name` is mentioned other than as a direct
        callee (address taken, stored in a slot, passed as an argument)"""
        res = []
        for f in self.all_fns():
            for ev in f.events():
                trees = []
                if ev.kind == 'CALL':
                    trees = list(ev.args)
                elif ev.kind == 'STORE' and ev.rhs is not None:
                    trees = [ev.rhs]
                elif ev.kind == 'DECL' and 'init' in ev.d:
                    trees = [ev.d['init']]
                for t in trees:
                    for n in walk(t):
                        if n.get('k') == 'fn' and n['n'] == name:
                            res.append((f, ev))
        return res


# --------------------------------------------------------------------------
# CFG inlining (bounded)

def inline(prog, fn, depth=1, which=None, _chain=()):
    """Return a new Fn in which calls to functions selected by
    which(callee_fn, call_ev) (default: static functions of the same file,
    and static inline header functions) are replaced by the callee's CFG, up to
    `depth` levels.  Parameter passing becomes STORE events `param = arg`
    (marked d['_bind']).  Events keep their origin in ev.inl."""
    if depth <= 0:
        return fn
    if which is None:
        def which(cf, ev):
            return cf.static and (cf.file == fn.file or cf.file.endswith('.h'))
    import copy
    new = copy.copy(fn)
    new.blocks = {}
    nid = [max(fn.blocks) + 1]

    def fresh():
        nid[0] += 1
        return nid[0]

    # copy caller blocks (events shared, Block objects new)
    def clone_block(b, bid):
        nb = Block(bid)
        nb.cond, nb.noreturn, nb.term, nb.label, nb.term_ln, nb.term_op = \
            b.cond, b.noreturn, b.term, b.label, b.term_ln, b.term_op
        return nb

    for b in fn.blocks.values():
        nb = clone_block(b, b.id)
        nb.succs = list(b.succs)
        nb.events = [Ev(ev.d, b.id, i, new, ev.inl) for i, ev in enumerate(b.events)]
        new.blocks[b.id] = nb

    changed = True
    rounds = 0
    done_calls = set()
    while changed and rounds < 200:
        changed = False
        rounds += 1
        for b in list(new.blocks.values()):
            for i, ev in enumerate(b.events):
                if ev.kind != 'CALL' or id(ev.d) in done_calls:
                    continue
                if len(ev.inl) >= depth:
                    continue
                cal = ev.callee
                if cal is None or cal not in prog.fns or cal in ev.inl or cal == fn.name:
                    continue
                cands = prog.fns[cal]
                if len(cands) != 1:
                    cands = [c for c in cands if c.file == fn.file] or cands[:1]
                cf = cands[0]
                if not which(cf, ev):
                    continue
                done_calls.add(id(ev.d))
                # split b at i: b keeps events[:i] + binds, tail gets events[i:] (call event stays, marked)
                tail = clone_block(b, fresh())
                tail.succs = b.succs
                tail.events = b.events[i:]
                b.events = b.events[:i]
                b.cond, b.noreturn, b.term, b.term_op = None, False, None, None
                chain = ev.inl + (cal,)
                # parameter binding
                for pi, p in enumerate(cf.params):
                    if pi < len(ev.args) and p['n']:
                        bd = {'ev': 'STORE', 'id': -1, 'op': '=', '_bind': True,
                              'lhs': {'k': 'var', 'n': p['n'], 'sc': 'p', 'ty': p['ty']},
                              'rhs': ev.args[pi], 'ln': ev.ln, '_file': ev.file}
                        b.events.append(Ev(bd, b.id, 0, new, chain))
                # clone callee
                idmap = {cb: fresh() for cb in cf.blocks}
                for cb in cf.blocks.values():
                    nb = clone_block(cb, idmap[cb.id])
                    nb.succs = [(idmap[t], lab) for (t, lab) in cb.succs]
                    nb.events = []
                    for cev in cb.events:
                        d = cev.d
                        if 'file' not in d and '_file' not in d:
                            d = dict(d)
                            d['_file'] = cf.file
                        nb.events.append(Ev(d, nb.id, 0, new, chain + cev.inl))
                    new.blocks[nb.id] = nb
                # callee exit -> tail
                ex = new.blocks[idmap[cf.exit]]
                ex.succs = [(tail.id, None)]
                b.succs = [(idmap[cf.entry], None)]
                new.blocks[tail.id] = tail
                # RETURN events of the callee remain as events (kind RETURN with inl) - rules
                # looking for returns of the outer function filter on ev.inl == ()
                changed = True
                break
            if changed:
                break
    new._finish()
    return new


# --------------------------------------------------------------------------
# misc

def now():
    return time.time()
