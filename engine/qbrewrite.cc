// qbrewrite: behaviour-preserving source rewrites used only to test the checker for false alarms
// (tools/benign_rewrite.py).  Never part of a verdict.
//   qbrewrite <src> -o <out> --mode swapcmp|negif|incr|notzero|zeronot|trace -- <flags>
#include "clang/AST/ASTConsumer.h"
#include "clang/AST/ParentMapContext.h"
#include "clang/AST/RecursiveASTVisitor.h"
#include "clang/Frontend/CompilerInstance.h"
#include "clang/Frontend/FrontendAction.h"
#include "clang/Lex/Lexer.h"
#include "clang/Rewrite/Core/Rewriter.h"
#include "clang/Tooling/CompilationDatabase.h"
#include "clang/Tooling/Tooling.h"
#include "llvm/Support/raw_ostream.h"
#include <fstream>
#include <set>
#include <string>
#include <vector>

using namespace clang;

static std::string gMode, gOut;
static int gCount = 0;

namespace {
struct Edit { SourceRange r; std::string text; };

class V : public RecursiveASTVisitor<V> {
public:
  ASTContext &C; SourceManager &SM; std::vector<Edit> edits; std::vector<std::pair<SourceLocation, std::string>> ins;
  explicit V(ASTContext &c) : C(c), SM(c.getSourceManager()) {}

  bool plain(SourceRange r) {
    if (r.isInvalid() || r.getBegin().isMacroID() || r.getEnd().isMacroID()) return false;
    return SM.isInMainFile(r.getBegin()) && SM.isInMainFile(r.getEnd());
  }
  std::string text(SourceRange r) {
    return Lexer::getSourceText(CharSourceRange::getTokenRange(r), SM, C.getLangOpts()).str();
  }
  bool hasCmpInside(const Stmt *s) {
    if (!s) return false;
    for (const Stmt *c : s->children()) {
      if (!c) continue;
      if (auto *b = dyn_cast<BinaryOperator>(c)) if (b->isComparisonOp()) return true;
      if (isa<UnaryOperator>(c) && cast<UnaryOperator>(c)->getOpcode() == UO_LNot) return true;
      if (hasCmpInside(c)) return true;
    }
    return false;
  }
  bool VisitBinaryOperator(BinaryOperator *b) {
    if (!b->isComparisonOp() || !plain(b->getSourceRange())) return true;
    if (gMode == "swapcmp") {
      if (hasCmpInside(b)) return true;
      const char *op = nullptr;
      switch (b->getOpcode()) {
      case BO_EQ: op = "=="; break; case BO_NE: op = "!="; break;
      case BO_LT: op = ">"; break;  case BO_GT: op = "<"; break;
      case BO_LE: op = ">="; break; case BO_GE: op = "<="; break;
      default: return true; }
      std::string l = text(b->getLHS()->getSourceRange()), r = text(b->getRHS()->getSourceRange());
      if (l.empty() || r.empty()) return true;
      edits.push_back({b->getSourceRange(), "(" + r + ") " + op + " (" + l + ")"});
    } else if (gMode == "zeronot") {
      if (b->getOpcode() != BO_EQ || hasCmpInside(b)) return true;
      Expr *r = b->getRHS()->IgnoreParenCasts();
      Expr::EvalResult ev;
      if (!r->EvaluateAsInt(ev, C) || ev.Val.getInt() != 0) return true;
      if (!b->getLHS()->getType()->isScalarType()) return true;
      std::string l = text(b->getLHS()->getSourceRange());
      if (l.empty()) return true;
      edits.push_back({b->getSourceRange(), "!(" + l + ")"});
    }
    return true;
  }
  bool VisitUnaryOperator(UnaryOperator *u) {
    if (!plain(u->getSourceRange())) return true;
    if (gMode == "notzero" && u->getOpcode() == UO_LNot) {
      if (hasCmpInside(u)) return true;
      std::string s = text(u->getSubExpr()->getSourceRange());
      if (s.empty()) return true;
      edits.push_back({u->getSourceRange(), "((" + s + ") == 0)"});
    } else if (gMode == "incr" && (u->getOpcode() == UO_PostInc || u->getOpcode() == UO_PostDec || u->getOpcode() == UO_PreInc || u->getOpcode() == UO_PreDec)) {
      // only as a full statement (parent is a compound statement) or a for-increment
      auto ps = C.getParents(*u);
      if (ps.empty()) return true;
      const Stmt *p = ps[0].get<Stmt>();
      bool stmt = p && isa<CompoundStmt>(p);
      if (p && isa<ForStmt>(p) && cast<ForStmt>(p)->getInc() == u) stmt = true;
      if (!stmt) return true;
      if (u->getSubExpr()->getType()->isPointerType() == false && !u->getSubExpr()->getType()->isIntegerType()) return true;
      std::string s = text(u->getSubExpr()->getSourceRange());
      if (s.empty()) return true;
      edits.push_back({u->getSourceRange(), s + (u->isIncrementOp() ? " += 1" : " -= 1")});
    }
    return true;
  }
  bool VisitFunctionDecl(FunctionDecl *f) {
    if (gMode != "trace" || !f->doesThisDeclarationHaveABody()) return true;
    auto *body = dyn_cast<CompoundStmt>(f->getBody());
    if (!body || !plain(body->getSourceRange())) return true;
    // a harmless libc call at the start of every function
    ins.push_back({body->getLBracLoc().getLocWithOffset(1), " (void)strlen(\"\");"});
    return true;
  }
  bool VisitReturnStmt(ReturnStmt *r) {
    if (gMode != "trace" || !r->getRetValue() || !plain(r->getSourceRange())) return true;
    Expr *v = r->getRetValue();
    if (!plain(v->getSourceRange()) || !v->getType()->isScalarType()) return true;
    std::string t = text(v->getSourceRange());
    if (t.empty()) return true;
    edits.push_back({v->getSourceRange(), "((void)strlen(\"\"), " + t + ")"});
    return true;
  }
  bool VisitIfStmt(IfStmt *i) {
    if (gMode != "negif" || !i->getElse() || !plain(i->getSourceRange())) return true;
    if (isa<IfStmt>(i->getElse()) || i->getConditionVariable() || i->getInit()) return true;
    // only innermost: no nested if with else inside either branch (keeps edits disjoint)
    struct F : RecursiveASTVisitor<F> { bool found = false; bool VisitIfStmt(IfStmt *) { found = true; return true; }
                                        bool VisitLabelStmt(LabelStmt *) { found = true; return true; }
                                        bool VisitCaseStmt(CaseStmt *) { found = true; return true; }
                                        bool VisitDeclStmt(DeclStmt *) { return true; } } f1, f2;
    f1.TraverseStmt(i->getThen()); f2.TraverseStmt(i->getElse());
    if (f1.found || f2.found) return true;
    if (!isa<CompoundStmt>(i->getThen()) || !isa<CompoundStmt>(i->getElse())) return true;
    std::string c = text(i->getCond()->getSourceRange()), t = text(i->getThen()->getSourceRange()), e = text(i->getElse()->getSourceRange());
    if (c.empty() || t.empty() || e.empty()) return true;
    edits.push_back({i->getSourceRange(), "if (!(" + c + ")) " + e + " else " + t});
    return true;
  }
};

class Cons : public ASTConsumer {
public:
  void HandleTranslationUnit(ASTContext &C) override {
    V v(C);
    v.TraverseDecl(C.getTranslationUnitDecl());
    SourceManager &SM = C.getSourceManager();
    // keep disjoint edits only (outermost first wins)
    std::vector<Edit> keep;
    for (auto &e : v.edits) {
      unsigned b = SM.getFileOffset(e.r.getBegin()), en = SM.getFileOffset(Lexer::getLocForEndOfToken(e.r.getEnd(), 0, SM, C.getLangOpts()));
      bool clash = false;
      for (auto &k : keep) {
        unsigned kb = SM.getFileOffset(k.r.getBegin()), ke = SM.getFileOffset(Lexer::getLocForEndOfToken(k.r.getEnd(), 0, SM, C.getLangOpts()));
        if (!(en <= kb || ke <= b)) { clash = true; break; }
      }
      if (!clash) keep.push_back(e);
    }
    Rewriter R(SM, C.getLangOpts());
    for (auto &e : keep) { R.ReplaceText(e.r, e.text); gCount++; }
    for (auto &i : v.ins) { R.InsertText(i.first, i.second); gCount++; }
    std::error_code ec;
    llvm::raw_fd_ostream os(gOut, ec);
    if (const RewriteBuffer *rb = R.getRewriteBufferFor(SM.getMainFileID())) rb->write(os);
    else os << SM.getBufferData(SM.getMainFileID());
  }
};

class Act : public ASTFrontendAction {
public:
  std::unique_ptr<ASTConsumer> CreateASTConsumer(CompilerInstance &, StringRef) override { return std::make_unique<Cons>(); }
};
} // namespace

int main(int argc, char **argv) {
  std::string src; std::vector<std::string> flags; bool after = false;
  for (int i = 1; i < argc; i++) {
    std::string a = argv[i];
    if (after) flags.push_back(a);
    else if (a == "--") after = true;
    else if (a == "-o") gOut = argv[++i];
    else if (a == "--mode") gMode = argv[++i];
    else src = a;
  }
  std::ifstream in(src); std::string code((std::istreambuf_iterator<char>(in)), std::istreambuf_iterator<char>());
  flags.push_back("-fsyntax-only");
  bool ok = tooling::runToolOnCodeWithArgs(std::make_unique<Act>(), code, flags, src);
  llvm::errs() << src << ": " << gCount << " edits (" << gMode << ")\n";
  return ok ? 0 : 1;
}
