// qbfacts: fact extractor for the libqb static checks.
//
// For one translation unit, parsed with the build's own flags, emit JSON with
//   * every function definition whose body lives under the repository root:
//     clang::CFG (all sub-expressions added, evaluation order) as blocks,
//     labelled successor edges, and per block the ordered events
//     CALL / STORE / LOAD / DECL / RETURN with resolved expression trees;
//   * record layouts, enum definitions, global variables with initialisers.
// Nothing is executed; nothing textual is matched.  Rules live in qbcheck.py.
//
// usage: qbfacts <source.c> -o <out.json> --root <repo root> -- <cc flags>

#include "clang/AST/ASTConsumer.h"
#include "clang/AST/ASTContext.h"
#include "clang/AST/Expr.h"
#include "clang/AST/RecordLayout.h"
#include "clang/AST/RecursiveASTVisitor.h"
#include "clang/Analysis/CFG.h"
#include "clang/Frontend/CompilerInstance.h"
#include "clang/Frontend/FrontendAction.h"
#include "clang/Lex/Lexer.h"
#include "clang/Tooling/CommonOptionsParser.h"
#include "clang/Tooling/Tooling.h"
#include "llvm/Support/CommandLine.h"
#include "llvm/Support/JSON.h"
#include "llvm/Support/raw_ostream.h"

#include <map>
#include <set>
#include <string>

using namespace clang;
using namespace clang::tooling;
namespace json = llvm::json;

static llvm::cl::OptionCategory Cat("qbfacts options");
static llvm::cl::opt<std::string> OutFile("o", llvm::cl::desc("output json"),
                                          llvm::cl::Required,
                                          llvm::cl::cat(Cat));
static llvm::cl::opt<std::string> Root("root", llvm::cl::desc("repo root"),
                                       llvm::cl::init("/repo"),
                                       llvm::cl::cat(Cat));

namespace {

struct Ctx {
  ASTContext *AC = nullptr;
  SourceManager *SM = nullptr;
  std::map<const Stmt *, unsigned> Ids;
  unsigned NextId = 1;
  std::map<std::string, json::Object> Types;
  std::string CurFile;

  unsigned id(const Stmt *S) {
    auto It = Ids.find(S);
    if (It != Ids.end())
      return It->second;
    return Ids[S] = NextId++;
  }
  void resetIds() {
    Ids.clear();
    NextId = 1;
  }
};

static Ctx G;

std::string typeStr(QualType T) {
  if (T.isNull())
    return "?";
  QualType C = T.getCanonicalType().getUnqualifiedType();
  std::string S = C.getAsString();
  if (!G.Types.count(S)) {
    json::Object O;
    if (C->isIntegralOrEnumerationType() && !C->isIncompleteType()) {
      O["kind"] = C->isEnumeralType() ? "enum" : "int";
      O["bits"] = (int64_t)G.AC->getTypeSize(C);
      O["signed"] = C->isSignedIntegerOrEnumerationType();
    } else if (C->isPointerType()) {
      O["kind"] = "ptr";
      O["bits"] = (int64_t)G.AC->getTypeSize(C);
      QualType P = C->getPointeeType();
      O["pointee"] = P.getCanonicalType().getUnqualifiedType().getAsString();
      if (P->isFunctionType())
        O["fnptr"] = true;
    } else if (C->isRecordType()) {
      O["kind"] = "record";
    } else if (C->isArrayType()) {
      O["kind"] = "array";
      if (const auto *CA = G.AC->getAsConstantArrayType(C)) {
        O["n"] = (int64_t)CA->getSize().getZExtValue();
        O["elem"] = CA->getElementType()
                        .getCanonicalType()
                        .getUnqualifiedType()
                        .getAsString();
        if (!CA->getElementType()->isIncompleteType())
          O["elem_bytes"] =
              (int64_t)G.AC->getTypeSizeInChars(CA->getElementType())
                  .getQuantity();
      }
    } else if (C->isFloatingType()) {
      O["kind"] = "float";
    } else if (C->isVoidType()) {
      O["kind"] = "void";
    } else {
      O["kind"] = "other";
    }
    G.Types[S] = std::move(O);
  }
  return S;
}

std::string recordName(const RecordDecl *RD) {
  if (!RD)
    return "?";
  if (!RD->getName().empty())
    return RD->getName().str();
  if (const TypedefNameDecl *TD = RD->getTypedefNameForAnonDecl())
    return TD->getName().str();
  // anonymous member struct/union: name it after the parent
  if (const auto *P = dyn_cast_or_null<RecordDecl>(RD->getParent()))
    return recordName(P) + "::<anon>";
  return "<anon>";
}

struct Pos {
  std::string File;
  unsigned Line = 0, Col = 0;
  std::string Macro;
};

Pos posOf(SourceLocation L) {
  Pos P;
  if (L.isInvalid())
    return P;
  SourceManager &SM = *G.SM;
  if (L.isMacroID()) {
    // outermost macro name
    SourceLocation Cur = L;
    SourceLocation Outer = L;
    while (Cur.isMacroID()) {
      Outer = Cur;
      if (SM.isMacroArgExpansion(Cur))
        Cur = SM.getImmediateExpansionRange(Cur).getBegin();
      else
        Cur = SM.getImmediateExpansionRange(Cur).getBegin();
    }
    // Outer is the last macro location whose expansion is in a file
    StringRef Name =
        Lexer::getImmediateMacroName(Outer, SM, G.AC->getLangOpts());
    P.Macro = Name.str();
  }
  SourceLocation E = SM.getExpansionLoc(L);
  PresumedLoc PL = SM.getPresumedLoc(E);
  if (PL.isValid()) {
    P.File = PL.getFilename();
    P.Line = PL.getLine();
    P.Col = PL.getColumn();
  }
  return P;
}

std::string relFile(const std::string &F) {
  std::string R = Root;
  if (!R.empty() && R.back() != '/')
    R += '/';
  if (F.compare(0, R.size(), R) == 0)
    return F.substr(R.size());
  return F;
}

bool underRoot(const std::string &F) {
  std::string R = Root;
  if (!R.empty() && R.back() != '/')
    R += '/';
  return F.compare(0, R.size(), R) == 0;
}

const Expr *strip(const Expr *E) {
  // strip parens and value-preserving implicit casts
  while (E) {
    if (const auto *P = dyn_cast<ParenExpr>(E)) {
      E = P->getSubExpr();
      continue;
    }
    if (const auto *C = dyn_cast<ConstantExpr>(E)) {
      E = C->getSubExpr();
      continue;
    }
    if (const auto *IC = dyn_cast<ImplicitCastExpr>(E)) {
      switch (IC->getCastKind()) {
      case CK_LValueToRValue:
      case CK_NoOp:
      case CK_FunctionToPointerDecay:
      case CK_ArrayToPointerDecay:
      case CK_BuiltinFnToFnPtr:
      case CK_BitCast:
      case CK_LValueBitCast:
      case CK_IntegralToBoolean:
      case CK_PointerToBoolean:
      case CK_ToVoid:
      case CK_AtomicToNonAtomic:
      case CK_NonAtomicToAtomic:
        E = IC->getSubExpr();
        continue;
      default:
        break;
      }
    }
    break;
  }
  return E;
}

json::Value exprJ(const Expr *E0, int Depth = 0);

void addConst(json::Object &O, const Expr *E) {
  if (!E || E->isValueDependent())
    return;
  if (!E->getType()->isIntegralOrEnumerationType() &&
      !E->getType()->isPointerType())
    return;
  Expr::EvalResult R;
  if (E->getType()->isIntegralOrEnumerationType() &&
      E->EvaluateAsInt(R, *G.AC, Expr::SE_NoSideEffects)) {
    llvm::APSInt V = R.Val.getInt();
    if (V.isSigned() || V.getActiveBits() <= 63)
      O["cv"] = (int64_t)V.getExtValue();
    else
      O["cvs"] = llvm::toString(V, 10);
    // 64-bit unsigned constants above INT64_MAX are emitted as strings
  } else if (E->getType()->isPointerType() &&
             E->isNullPointerConstant(*G.AC,
                                      Expr::NPC_ValueDependentIsNotNull)) {
    O["cv"] = 0;
  }
}

// name of the object-like/function-like macro whose expansion is exactly
// this expression (outermost such macro), or ""
std::string spanningMacro(const Expr *E) {
  if (!E)
    return "";
  SourceLocation B = E->getBeginLoc(), En = E->getEndLoc();
  if (!B.isMacroID() || !En.isMacroID())
    return "";
  SourceManager &SM = *G.SM;
  const LangOptions &LO = G.AC->getLangOpts();
  std::string Name;
  // climb while the expression is exactly one whole expansion
  while (B.isMacroID() && En.isMacroID()) {
    SourceLocation NB, NE;
    if (SM.isMacroArgExpansion(B) && SM.isMacroArgExpansion(En)) {
      // a macro argument: continue where the argument was spelled
      B = SM.getImmediateSpellingLoc(B);
      En = SM.getImmediateSpellingLoc(En);
      continue;
    }
    if (SM.getFileID(B) != SM.getFileID(En))
      break;
    if (!SM.isAtStartOfImmediateMacroExpansion(B, &NB))
      break;
    unsigned TokLen = Lexer::MeasureTokenLength(SM.getSpellingLoc(En), SM, LO);
    if (!SM.isAtEndOfImmediateMacroExpansion(En.getLocWithOffset(TokLen), &NE))
      break;
    bool ArgB = SM.isMacroArgExpansion(B), ArgE = SM.isMacroArgExpansion(En);
    if (ArgB != ArgE)
      break;
    if (!ArgB)
      Name = Lexer::getImmediateMacroName(B, SM, LO).str();
    B = NB;
    En = NE;
  }
  return Name;
}

json::Value exprJ(const Expr *E0, int Depth) {
  const Expr *E = strip(E0);
  json::Object O;
  if (!E) {
    O["k"] = "null";
    return std::move(O);
  }
  O["id"] = (int64_t)G.id(E);
  {
    std::string MN = spanningMacro(E0);
    if (MN.empty() && E != E0)
      MN = spanningMacro(E);
    if (!MN.empty())
      O["mn"] = MN;
  }
  if (Depth > 60) {
    O["k"] = "deep";
    return std::move(O);
  }
  O["ty"] = typeStr(E->getType());

  if (const auto *IL = dyn_cast<IntegerLiteral>(E)) {
    O["k"] = "int";
    llvm::APInt V = IL->getValue();
    if (V.getActiveBits() <= 63)
      O["cv"] = (int64_t)V.getZExtValue();
    else
      O["cvs"] = llvm::toString(V, 10, false);
    return std::move(O);
  }
  if (const auto *CL = dyn_cast<CharacterLiteral>(E)) {
    O["k"] = "int";
    O["cv"] = (int64_t)CL->getValue();
    O["chr"] = true;
    return std::move(O);
  }
  if (const auto *SL = dyn_cast<StringLiteral>(E)) {
    O["k"] = "str";
    if (SL->getCharByteWidth() == 1)
      O["v"] = SL->getString().str();
    O["len"] = (int64_t)SL->getLength();
    return std::move(O);
  }
  if (isa<FloatingLiteral>(E)) {
    O["k"] = "flt";
    return std::move(O);
  }
  if (const auto *PE = dyn_cast<PredefinedExpr>(E)) {
    O["k"] = "str";
    if (PE->getFunctionName())
      O["v"] = PE->getFunctionName()->getString().str();
    O["func"] = true;
    return std::move(O);
  }
  if (const auto *DR = dyn_cast<DeclRefExpr>(E)) {
    const ValueDecl *D = DR->getDecl();
    if (const auto *VD = dyn_cast<VarDecl>(D)) {
      O["k"] = "var";
      O["n"] = VD->getName().str();
      const char *Sc = "l";
      if (isa<ParmVarDecl>(VD))
        Sc = "p";
      else if (VD->isStaticLocal())
        Sc = "s";
      else if (VD->hasGlobalStorage())
        Sc = "g";
      O["sc"] = Sc;
    } else if (const auto *FD = dyn_cast<FunctionDecl>(D)) {
      O["k"] = "fn";
      O["n"] = FD->getName().str();
    } else if (const auto *EC = dyn_cast<EnumConstantDecl>(D)) {
      O["k"] = "enum";
      O["n"] = EC->getName().str();
      O["cv"] = (int64_t)EC->getInitVal().getExtValue();
    } else {
      O["k"] = "ref";
      O["n"] = D->getNameAsString();
    }
    return std::move(O);
  }
  if (const auto *ME = dyn_cast<MemberExpr>(E)) {
    O["k"] = "mem";
    O["b"] = exprJ(ME->getBase(), Depth + 1);
    O["f"] = ME->getMemberDecl()->getNameAsString();
    if (const auto *FD = dyn_cast<FieldDecl>(ME->getMemberDecl()))
      O["rec"] = recordName(FD->getParent());
    O["arrow"] = ME->isArrow();
    return std::move(O);
  }
  if (const auto *AS = dyn_cast<ArraySubscriptExpr>(E)) {
    O["k"] = "idx";
    O["b"] = exprJ(AS->getBase(), Depth + 1);
    O["i"] = exprJ(AS->getIdx(), Depth + 1);
    return std::move(O);
  }
  if (const auto *UO = dyn_cast<UnaryOperator>(E)) {
    switch (UO->getOpcode()) {
    case UO_Deref:
      O["k"] = "deref";
      break;
    case UO_AddrOf:
      O["k"] = "addr";
      break;
    case UO_Extension:
      return exprJ(UO->getSubExpr(), Depth + 1);
    default:
      O["k"] = "un";
      switch (UO->getOpcode()) {
      case UO_PostInc:
        O["op"] = "post++";
        break;
      case UO_PostDec:
        O["op"] = "post--";
        break;
      case UO_PreInc:
        O["op"] = "++pre";
        break;
      case UO_PreDec:
        O["op"] = "--pre";
        break;
      default:
        O["op"] = UnaryOperator::getOpcodeStr(UO->getOpcode()).str();
      }
    }
    O["e"] = exprJ(UO->getSubExpr(), Depth + 1);
    addConst(O, E);
    return std::move(O);
  }
  if (const auto *BO = dyn_cast<BinaryOperator>(E)) {
    O["k"] = "bin";
    O["op"] = BO->getOpcodeStr().str();
    O["l"] = exprJ(BO->getLHS(), Depth + 1);
    O["r"] = exprJ(BO->getRHS(), Depth + 1);
    if (const auto *CA = dyn_cast<CompoundAssignOperator>(BO))
      O["cty"] = typeStr(CA->getComputationResultType());
    addConst(O, E);
    return std::move(O);
  }
  if (const auto *CO = dyn_cast<ConditionalOperator>(E)) {
    O["k"] = "cond";
    O["c"] = exprJ(CO->getCond(), Depth + 1);
    O["t"] = exprJ(CO->getTrueExpr(), Depth + 1);
    O["f"] = exprJ(CO->getFalseExpr(), Depth + 1);
    addConst(O, E);
    return std::move(O);
  }
  if (const auto *BC = dyn_cast<BinaryConditionalOperator>(E)) {
    O["k"] = "cond";
    O["c"] = exprJ(BC->getCommon(), Depth + 1);
    O["t"] = exprJ(BC->getCommon(), Depth + 1);
    O["f"] = exprJ(BC->getFalseExpr(), Depth + 1);
    O["elvis"] = true;
    return std::move(O);
  }
  if (const auto *OV = dyn_cast<OpaqueValueExpr>(E)) {
    if (OV->getSourceExpr())
      return exprJ(OV->getSourceExpr(), Depth + 1);
    O["k"] = "opaque";
    return std::move(O);
  }
  if (const auto *CE = dyn_cast<CastExpr>(E)) {
    O["k"] = "cast";
    O["imp"] = isa<ImplicitCastExpr>(CE);
    O["ck"] = CE->getCastKindName();
    O["e"] = exprJ(CE->getSubExpr(), Depth + 1);
    addConst(O, E);
    return std::move(O);
  }
  if (const auto *AE = dyn_cast<AtomicExpr>(E)) {
    O["k"] = "call";
    std::string Name;
    switch (AE->getOp()) {
#define BUILTIN(ID, TYPE, ATTRS)
#define ATOMIC_BUILTIN(ID, TYPE, ATTRS)                                        \
  case AtomicExpr::AO##ID:                                                     \
    Name = #ID;                                                                \
    break;
#include "clang/Basic/Builtins.def"
    default:
      Name = "__atomic_unknown";
    }
    O["fn"] = Name;
    O["atomic"] = true;
    json::Array Args;
    // source order: ptr, [val1], [val2/…], order…  – emit named parts too
    O["ptr"] = exprJ(AE->getPtr(), Depth + 1);
    O["order"] = exprJ(AE->getOrder(), Depth + 1);
    Args.push_back(exprJ(AE->getPtr(), Depth + 1));
    bool HasVal1 = AE->getNumSubExprs() > 2;
    if (HasVal1) {
      // getVal1 asserts when absent; NumSubExprs: load=2, store/rmw=3, cmpxchg 5/6
      O["val"] = exprJ(AE->getVal1(), Depth + 1);
      Args.push_back(exprJ(AE->getVal1(), Depth + 1));
    }
    Args.push_back(exprJ(AE->getOrder(), Depth + 1));
    O["args"] = std::move(Args);
    return std::move(O);
  }
  if (const auto *CE = dyn_cast<CallExpr>(E)) {
    O["k"] = "call";
    if (const FunctionDecl *FD = CE->getDirectCallee()) {
      O["fn"] = FD->getName().str();
      if (FD->isNoReturn() || FD->hasAttr<NoReturnAttr>())
        O["noret"] = true;
    } else {
      O["ce"] = exprJ(CE->getCallee(), Depth + 1);
    }
    json::Array Args;
    for (const Expr *A : CE->arguments())
      Args.push_back(exprJ(A, Depth + 1));
    O["args"] = std::move(Args);
    addConst(O, E);
    return std::move(O);
  }
  if (const auto *UE = dyn_cast<UnaryExprOrTypeTraitExpr>(E)) {
    O["k"] = "sizeof";
    O["trait"] = (int64_t)UE->getKind();
    if (UE->isArgumentType())
      O["of"] = typeStr(UE->getArgumentType());
    else {
      O["of"] = typeStr(UE->getArgumentExpr()->getType());
      O["ofe"] = exprJ(UE->getArgumentExpr(), Depth + 1);
    }
    addConst(O, E);
    return std::move(O);
  }
  if (const auto *SE = dyn_cast<StmtExpr>(E)) {
    O["k"] = "stmtexpr";
    const CompoundStmt *CS = SE->getSubStmt();
    if (CS && !CS->body_empty())
      if (const auto *Last = dyn_cast<Expr>(CS->body_back()))
        O["last"] = exprJ(Last, Depth + 1);
    return std::move(O);
  }
  if (const auto *IL = dyn_cast<InitListExpr>(E)) {
    O["k"] = "init";
    const InitListExpr *Sem = IL->isSemanticForm() ? IL : IL->getSemanticForm();
    if (!Sem)
      Sem = IL;
    json::Array Items;
    const RecordDecl *RD = nullptr;
    if (const auto *RT = Sem->getType()->getAs<RecordType>())
      RD = RT->getDecl();
    if (RD && !RD->isUnion()) {
      unsigned I = 0;
      for (const FieldDecl *F : RD->fields()) {
        if (I >= Sem->getNumInits())
          break;
        const Expr *Init = Sem->getInit(I++);
        if (isa<ImplicitValueInitExpr>(Init))
          continue;
        json::Object It;
        It["f"] = F->getName().str();
        It["e"] = exprJ(Init, Depth + 1);
        Items.push_back(std::move(It));
      }
    } else {
      for (unsigned I = 0; I < Sem->getNumInits(); ++I) {
        json::Object It;
        It["i"] = (int64_t)I;
        It["e"] = exprJ(Sem->getInit(I), Depth + 1);
        Items.push_back(std::move(It));
      }
    }
    O["items"] = std::move(Items);
    return std::move(O);
  }
  if (const auto *CL = dyn_cast<CompoundLiteralExpr>(E)) {
    return exprJ(CL->getInitializer(), Depth + 1);
  }
  if (const auto *VA = dyn_cast<VAArgExpr>(E)) {
    O["k"] = "va_arg";
    O["e"] = exprJ(VA->getSubExpr(), Depth + 1);
    return std::move(O);
  }
  if (isa<OffsetOfExpr>(E)) {
    O["k"] = "offsetof";
    addConst(O, E);
    return std::move(O);
  }
  if (isa<ImplicitValueInitExpr>(E)) {
    O["k"] = "int";
    O["cv"] = 0;
    O["zeroinit"] = true;
    return std::move(O);
  }
  if (isa<GNUNullExpr>(E)) {
    O["k"] = "int";
    O["cv"] = 0;
    return std::move(O);
  }
  O["k"] = "other";
  O["cls"] = E->getStmtClassName();
  json::Array Kids;
  for (const Stmt *C : E->children())
    if (const auto *CE = dyn_cast_or_null<Expr>(C))
      Kids.push_back(exprJ(CE, Depth + 1));
  O["kids"] = std::move(Kids);
  addConst(O, E);
  return std::move(O);
}

void putPos(json::Object &O, const Stmt *S) {
  Pos P = posOf(S->getBeginLoc());
  O["ln"] = (int64_t)P.Line;
  O["col"] = (int64_t)P.Col;
  if (!P.Macro.empty())
    O["mac"] = P.Macro;
  if (P.File != G.CurFile && !P.File.empty())
    O["file"] = relFile(P.File);
}

bool isAssign(const BinaryOperator *BO) {
  return BO->isAssignmentOp(); // = and compound
}

bool isLocalVarRef(const Expr *E) {
  E = strip(E);
  if (const auto *DR = dyn_cast_or_null<DeclRefExpr>(E))
    if (const auto *VD = dyn_cast<VarDecl>(DR->getDecl()))
      return VD->hasLocalStorage();
  return false;
}

// Emit zero or one event for a CFG statement element.
void eventFor(const Stmt *S, json::Array &Events) {
  if (const auto *E = dyn_cast<Expr>(S)) {
    // calls (incl. atomic builtins)
    if (isa<CallExpr>(E) || isa<AtomicExpr>(E)) {
      json::Object Ev;
      Ev["ev"] = "CALL";
      Ev["id"] = (int64_t)G.id(E);
      Ev["e"] = exprJ(E);
      putPos(Ev, S);
      Events.push_back(std::move(Ev));
      return;
    }
    if (const auto *BO = dyn_cast<BinaryOperator>(E)) {
      if (isAssign(BO)) {
        json::Object Ev;
        Ev["ev"] = "STORE";
        Ev["id"] = (int64_t)G.id(E);
        Ev["op"] = BO->getOpcodeStr().str();
        Ev["lhs"] = exprJ(BO->getLHS());
        Ev["rhs"] = exprJ(BO->getRHS());
        putPos(Ev, S);
        Events.push_back(std::move(Ev));
      }
      return;
    }
    if (const auto *UO = dyn_cast<UnaryOperator>(E)) {
      if (UO->isIncrementDecrementOp()) {
        json::Object Ev;
        Ev["ev"] = "STORE";
        Ev["id"] = (int64_t)G.id(E);
        Ev["op"] = UO->isIncrementOp() ? "++" : "--";
        Ev["lhs"] = exprJ(UO->getSubExpr());
        putPos(Ev, S);
        Events.push_back(std::move(Ev));
      }
      return;
    }
    if (const auto *IC = dyn_cast<ImplicitCastExpr>(E)) {
      if (IC->getCastKind() == CK_LValueToRValue) {
        json::Object Ev;
        Ev["ev"] = "LOAD";
        Ev["id"] = (int64_t)G.id(E);
        Ev["e"] = exprJ(IC->getSubExpr());
        putPos(Ev, S);
        Events.push_back(std::move(Ev));
      }
      return;
    }
    return;
  }
  if (const auto *DS = dyn_cast<DeclStmt>(S)) {
    for (const Decl *D : DS->decls()) {
      if (const auto *VD = dyn_cast<VarDecl>(D)) {
        json::Object Ev;
        Ev["ev"] = "DECL";
        Ev["id"] = (int64_t)G.id(S);
        Ev["var"] = VD->getName().str();
        Ev["ty"] = typeStr(VD->getType());
        if (VD->isStaticLocal())
          Ev["static"] = true;
        if (VD->hasInit())
          Ev["init"] = exprJ(VD->getInit());
        putPos(Ev, S);
        Events.push_back(std::move(Ev));
      }
    }
    return;
  }
  if (const auto *RS = dyn_cast<ReturnStmt>(S)) {
    json::Object Ev;
    Ev["ev"] = "RETURN";
    Ev["id"] = (int64_t)G.id(S);
    if (RS->getRetValue())
      Ev["e"] = exprJ(RS->getRetValue());
    putPos(Ev, S);
    Events.push_back(std::move(Ev));
    return;
  }
  if (const auto *AS = dyn_cast<GCCAsmStmt>(S)) {
    json::Object Ev;
    Ev["ev"] = "ASM";
    Ev["id"] = (int64_t)G.id(S);
    Ev["text"] = AS->getAsmString()->getString().str();
    putPos(Ev, S);
    Events.push_back(std::move(Ev));
    return;
  }
}

const Expr *lastCond(const CFGBlock *B) {
  const Stmt *T = B->getTerminatorStmt();
  const Expr *C = dyn_cast_or_null<Expr>(B->getTerminatorCondition(false));
  if (!C)
    return nullptr;
  // The value that decides the branch in *this* block is the operand that
  // was evaluated last: for `if (a && b)` the block ending in the if has
  // decided b; for a block whose terminator is itself a logical operator
  // `(a || b) && c` the terminator condition is the LHS `(a || b)`, of which
  // b was evaluated last in this block.
  (void)T;
  {
    const Expr *X = C->IgnoreParens();
    while (const auto *BO = dyn_cast<BinaryOperator>(X)) {
      if (!BO->isLogicalOp())
        break;
      X = BO->getRHS()->IgnoreParens();
    }
    C = X;
  }
  return C;
}

json::Value functionJ(const FunctionDecl *FD) {
  G.resetIds();
  json::Object F;
  F["name"] = FD->getName().str();
  Pos P = posOf(FD->getLocation());
  G.CurFile = P.File;
  F["file"] = relFile(P.File);
  F["line"] = (int64_t)P.Line;
  Pos PE = posOf(FD->getBody()->getEndLoc());
  F["end_line"] = (int64_t)PE.Line;
  F["static"] = FD->getStorageClass() == SC_Static;
  F["inline"] = FD->isInlineSpecified();
  F["ret"] = typeStr(FD->getReturnType());
  F["variadic"] = FD->isVariadic();
  json::Array Params;
  for (const ParmVarDecl *PV : FD->parameters()) {
    json::Object PO;
    PO["n"] = PV->getName().str();
    PO["ty"] = typeStr(PV->getType());
    Params.push_back(std::move(PO));
  }
  F["params"] = std::move(Params);

  CFG::BuildOptions BO;
  BO.setAllAlwaysAdd();
  BO.PruneTriviallyFalseEdges = false;
  BO.AddEHEdges = false;
  BO.AddImplicitDtors = false;
  BO.AddInitializers = false;
  std::unique_ptr<CFG> Cfg =
      CFG::buildCFG(FD, FD->getBody(), G.AC, BO);
  if (!Cfg) {
    F["cfg_failed"] = true;
    return std::move(F);
  }
  F["entry"] = (int64_t)Cfg->getEntry().getBlockID();
  F["exit"] = (int64_t)Cfg->getExit().getBlockID();
  json::Array Blocks;
  for (const CFGBlock *B : *Cfg) {
    json::Object BJ;
    BJ["id"] = (int64_t)B->getBlockID();
    json::Array Events;
    for (const CFGElement &El : *B) {
      if (auto CS = El.getAs<CFGStmt>())
        eventFor(CS->getStmt(), Events);
    }
    BJ["events"] = std::move(Events);
    if (B->hasNoReturnElement())
      BJ["noreturn"] = true;
    if (const Stmt *L = B->getLabel()) {
      if (const auto *LS = dyn_cast<LabelStmt>(L))
        BJ["label"] = LS->getName();
    }
    const Stmt *T = B->getTerminatorStmt();
    if (T) {
      BJ["term"] = T->getStmtClassName();
      json::Object TP;
      putPos(TP, T);
      BJ["term_ln"] = TP["ln"];
      if (const auto *TB = dyn_cast<BinaryOperator>(T))
        BJ["term_op"] = TB->getOpcodeStr().str();
    }
    const Expr *C = lastCond(B);
    if (C)
      BJ["cond"] = exprJ(C);
    json::Array Succs;
    unsigned I = 0;
    unsigned NS = B->succ_size();
    bool IsSwitch = T && isa<SwitchStmt>(T);
    for (auto SI = B->succ_begin(); SI != B->succ_end(); ++SI, ++I) {
      const CFGBlock *SB = SI->getReachableBlock();
      const CFGBlock *PB = SI->getPossiblyUnreachableBlock();
      if (!SB && !PB)
        continue;
      json::Object SJ;
      const CFGBlock *TB = SB ? SB : PB;
      SJ["to"] = (int64_t)TB->getBlockID();
      if (!SB)
        SJ["unreachable"] = true;
      if (IsSwitch) {
        const Stmt *L = TB->getLabel();
        bool Labeled = false;
        if (const auto *CS = dyn_cast_or_null<CaseStmt>(L)) {
          // only a label of *this* switch if reached directly
          Expr::EvalResult R;
          if (CS->getLHS()->EvaluateAsInt(R, *G.AC)) {
            SJ["case"] = (int64_t)R.Val.getInt().getExtValue();
            Labeled = true;
            if (CS->getRHS()) {
              Expr::EvalResult R2;
              if (CS->getRHS()->EvaluateAsInt(R2, *G.AC))
                SJ["case_hi"] = (int64_t)R2.Val.getInt().getExtValue();
            }
            if (const auto *DR = dyn_cast<DeclRefExpr>(
                    CS->getLHS()->IgnoreParenImpCasts()))
              SJ["case_name"] = DR->getDecl()->getNameAsString();
          }
        }
        if (!Labeled)
          SJ["default"] = true;
        if (I + 1 == NS && !Labeled)
          SJ["default"] = true;
      } else if (C && NS == 2) {
        SJ["sense"] = (I == 0);
      }
      Succs.push_back(std::move(SJ));
    }
    BJ["succs"] = std::move(Succs);
    Blocks.push_back(std::move(BJ));
  }
  F["blocks"] = std::move(Blocks);
  return std::move(F);
}

class Consumer : public ASTConsumer {
public:
  void HandleTranslationUnit(ASTContext &AC) override {
    G.AC = &AC;
    G.SM = &AC.getSourceManager();
    json::Object Unit;
    const FileEntry *Main = G.SM->getFileEntryForID(G.SM->getMainFileID());
    Unit["unit"] = relFile(Main ? Main->getName().str() : "?");
    json::Array Funcs, Records, Enums, Globals, Decls;
    std::set<const RecordDecl *> SeenRec;

    struct V : RecursiveASTVisitor<V> {
      json::Array &Funcs, &Records, &Enums, &Globals, &Decls;
      V(json::Array &F, json::Array &R, json::Array &E, json::Array &Gl,
        json::Array &D)
          : Funcs(F), Records(R), Enums(E), Globals(Gl), Decls(D) {}
      bool VisitFunctionDecl(FunctionDecl *FD) {
        Pos P = posOf(FD->getLocation());
        if (FD->doesThisDeclarationHaveABody()) {
          if (!underRoot(P.File))
            return true;
          Funcs.push_back(functionJ(FD));
        } else if (underRoot(P.File)) {
          json::Object D;
          D["name"] = FD->getName().str();
          D["file"] = relFile(P.File);
          D["line"] = (int64_t)P.Line;
          D["ret"] = typeStr(FD->getReturnType());
          json::Array Params;
          for (const ParmVarDecl *PV : FD->parameters()) {
            json::Object PO;
            PO["n"] = PV->getName().str();
            PO["ty"] = typeStr(PV->getType());
            Params.push_back(std::move(PO));
          }
          D["params"] = std::move(Params);
          Decls.push_back(std::move(D));
        }
        return true;
      }
      bool VisitRecordDecl(RecordDecl *RD) {
        if (!RD->isCompleteDefinition() || RD->isInvalidDecl())
          return true;
        Pos P = posOf(RD->getLocation());
        if (!underRoot(P.File))
          return true;
        json::Object R;
        R["name"] = recordName(RD);
        R["file"] = relFile(P.File);
        R["line"] = (int64_t)P.Line;
        R["union"] = RD->isUnion();
        const ASTRecordLayout &L = G.AC->getASTRecordLayout(RD);
        R["size"] = (int64_t)L.getSize().getQuantity();
        R["align"] = (int64_t)L.getAlignment().getQuantity();
        json::Array Fs;
        unsigned I = 0;
        for (const FieldDecl *F : RD->fields()) {
          json::Object FJ;
          FJ["n"] = F->getName().str();
          FJ["ty"] = typeStr(F->getType());
          FJ["off_bits"] = (int64_t)L.getFieldOffset(I++);
          if (!F->getType()->isIncompleteType())
            FJ["bytes"] =
                (int64_t)G.AC->getTypeSizeInChars(F->getType()).getQuantity();
          if (F->isBitField())
            FJ["bitfield"] = (int64_t)F->getBitWidthValue(*G.AC);
          Fs.push_back(std::move(FJ));
        }
        R["fields"] = std::move(Fs);
        Records.push_back(std::move(R));
        return true;
      }
      bool VisitEnumDecl(EnumDecl *ED) {
        if (!ED->isCompleteDefinition())
          return true;
        Pos P = posOf(ED->getLocation());
        if (!underRoot(P.File))
          return true;
        json::Object E;
        std::string N = ED->getName().str();
        if (N.empty())
          if (const TypedefNameDecl *TD = ED->getTypedefNameForAnonDecl())
            N = TD->getName().str();
        E["name"] = N;
        E["file"] = relFile(P.File);
        E["line"] = (int64_t)P.Line;
        json::Array Cs;
        for (const EnumConstantDecl *C : ED->enumerators()) {
          json::Object CJ;
          CJ["n"] = C->getName().str();
          CJ["v"] = (int64_t)C->getInitVal().getExtValue();
          Cs.push_back(std::move(CJ));
        }
        E["consts"] = std::move(Cs);
        Enums.push_back(std::move(E));
        return true;
      }
      bool VisitVarDecl(VarDecl *VD) {
        if (!VD->hasGlobalStorage() || VD->isStaticLocal())
          return true;
        Pos P = posOf(VD->getLocation());
        if (!underRoot(P.File))
          return true;
        json::Object GJ;
        GJ["name"] = VD->getName().str();
        GJ["file"] = relFile(P.File);
        GJ["line"] = (int64_t)P.Line;
        GJ["ty"] = typeStr(VD->getType());
        GJ["static"] = VD->getStorageClass() == SC_Static;
        GJ["extern"] = VD->hasExternalStorage();
        G.resetIds();
        G.CurFile = P.File;
        if (VD->hasInit())
          GJ["init"] = exprJ(VD->getInit());
        Globals.push_back(std::move(GJ));
        return true;
      }
    } Vis(Funcs, Records, Enums, Globals, Decls);
    Vis.TraverseDecl(AC.getTranslationUnitDecl());

    Unit["functions"] = std::move(Funcs);
    Unit["records"] = std::move(Records);
    Unit["enums"] = std::move(Enums);
    Unit["globals"] = std::move(Globals);
    Unit["decls"] = std::move(Decls);
    json::Object Ty;
    for (auto &KV : G.Types)
      Ty[KV.first] = std::move(KV.second);
    Unit["types"] = std::move(Ty);
    Unit["errors"] = (int64_t)AC.getDiagnostics().getNumErrors();

    std::error_code EC;
    llvm::raw_fd_ostream OS(OutFile, EC);
    if (EC) {
      llvm::errs() << "qbfacts: cannot write " << OutFile << ": "
                   << EC.message() << "\n";
      exit(3);
    }
    OS << json::Value(std::move(Unit)) << "\n";
  }
};

class Action : public ASTFrontendAction {
public:
  std::unique_ptr<ASTConsumer> CreateASTConsumer(CompilerInstance &,
                                                 StringRef) override {
    return std::make_unique<Consumer>();
  }
};

} // namespace

int main(int argc, const char **argv) {
  auto Exp = CommonOptionsParser::create(argc, argv, Cat);
  if (!Exp) {
    llvm::errs() << llvm::toString(Exp.takeError()) << "\n";
    return 2;
  }
  CommonOptionsParser &OP = Exp.get();
  ClangTool Tool(OP.getCompilations(), OP.getSourcePathList());
  return Tool.run(newFrontendActionFactory<Action>().get());
}
