"""driver.py - runs the rules of one property against /repo's current tree.

exit 0  every obligation discharged (KNOWN-FINDING lines allowed)
exit 1  a violated obligation that known_findings.json does not list
        (prints `VIOLATION property=<id> replay=<path>`)
exit 2  analysis broken: a unit does not parse, an anchor vanished, a rule
        matched fewer instances than its hand-confirmed floor, an instance is
        inconclusive, or (thorough) a self-test mutant was not caught
"""
import importlib
import json
import os
import shutil
import subprocess
import sys
import tempfile
import time
import traceback

sys.path.insert(0, os.path.dirname(os.path.dirname(os.path.abspath(__file__))))
from engine import qb  # noqa: E402

VERIF = qb.VERIF


class Ctx:
    """collects the obligations a property's rules enumerate"""

    def __init__(self, prog, prop, tier, depth):
        self.prog = prog
        self.prop = prop
        self.tier = tier
        self.depth = depth
        self.results = []
        self.notes = []
        self._inl = {}

    def inl(self, fn, depth=None, which=None):
        """fn with same-unit static callees inlined to the tier's depth"""
        depth = self.depth if depth is None else depth
        key = (fn.name, fn.file, depth, which)
        if key not in self._inl:
            self._inl[key] = qb.inline(self.prog, fn, depth, which)
        return self._inl[key]

    def ok(self, rule, key, where=None, what=''):
        self.results.append({'rule': rule, 'key': key, 'status': 'ok',
                             'where': _where(where), 'what': what})

    def viol(self, rule, key, where, what, detail=None):
        self.results.append({'rule': rule, 'key': key, 'status': 'violation',
                             'where': _where(where), 'what': what, 'detail': detail or {}})

    def inconclusive(self, rule, key, where, what):
        self.results.append({'rule': rule, 'key': key, 'status': 'inconclusive',
                             'where': _where(where), 'what': what})

    def check(self, rule, key, cond, where, what_ok, what_bad=None, detail=None):
        if cond:
            self.ok(rule, key, where, what_ok)
        else:
            self.viol(rule, key, where, what_bad or ('NOT: ' + what_ok), detail)
        return cond

    def note(self, s):
        self.notes.append(s)


def _where(w):
    if w is None:
        return ''
    if isinstance(w, str):
        return w
    if isinstance(w, qb.Ev):
        return '%s (%s)' % (w.loc(), w.fn.name)
    if isinstance(w, qb.Fn):
        return '%s:%d (%s)' % (w.file, w.line, w.name)
    return str(w)


def load_known():
    p = os.path.join(VERIF, 'known_findings.json')
    if not os.path.exists(p):
        return []
    return json.load(open(p)).get('findings', [])


def run_rules(mod, prop, tier, repo, units, extra_flags=(), outdir=None, config_undef=()):
    # one private fact directory per run: checks of different properties may run concurrently
    os.makedirs(qb.BUILD, exist_ok=True)
    tmp = tempfile.mkdtemp(prefix='facts-%s-' % prop, dir=qb.BUILD)
    try:
        files = qb.extract(units, repo=repo, outdir=tmp, extra_flags=extra_flags, config_undef=config_undef)
        prog = qb.Program(files)
    finally:
        shutil.rmtree(tmp, ignore_errors=True)
    depth = 1 if tier == 'quick' else 3
    ctx = Ctx(prog, prop, tier, depth)
    ctx.error = None
    try:
        mod.run(ctx)
    except qb.AnalysisBroken as ex:
        ctx.error = str(ex)
    except Exception:
        ctx.error = 'internal error: ' + traceback.format_exc()[-1500:]
    return prog, ctx


def floors_ok(mod, ctx):
    """instance floors: rule -> minimal number of obligations enumerated"""
    problems = []
    counts = {}
    for r in ctx.results:
        counts[r['rule']] = counts.get(r['rule'], 0) + 1
    for rule, floor in getattr(mod, 'FLOORS', {}).items():
        if counts.get(rule, 0) < floor:
            problems.append('rule %s enumerated %d obligations, floor is %d' % (rule, counts.get(rule, 0), floor))
    return problems, counts


def scratch_copy(repo):
    """copy of the source directories the extractor reads (outside /repo,/verif)"""
    d = tempfile.mkdtemp(prefix='qbscratch-', dir=os.environ.get('QB_SCRATCH', '/tmp'))
    for sub in ('lib', 'include', 'tools'):
        src = os.path.join(repo, sub)
        if os.path.isdir(src):
            shutil.copytree(src, os.path.join(d, sub),
                            ignore=shutil.ignore_patterns('*.o', '*.lo', '*.la', '.libs', '.deps', '*.a', '*.so*'))
    return d


def selftest_mutants(mod, prop, tier_units):
    """thorough: every committed mutant for this property must still parse and
    must be reported by the rule it names.  Returns (records, problems)."""
    mdir = os.path.join(VERIF, 'mutants')
    recs, problems = [], []
    if not os.path.isdir(mdir):
        return recs, problems
    names = sorted(n for n in os.listdir(mdir) if n.startswith(prop + '-') and n.endswith('.patch'))
    for n in names:
        meta = {}
        with open(os.path.join(mdir, n), errors='replace') as fh:
            for line in fh:
                if line.startswith('# expect-rule:'):
                    meta['rule'] = line.split(':', 1)[1].strip()
                if line.startswith('# what:'):
                    meta['what'] = line.split(':', 1)[1].strip()
                if not line.startswith('#'):
                    break
        d = scratch_copy(qb.REPO)
        try:
            r = subprocess.run(['patch', '-p1', '-s', '-d', d, '-i', os.path.join(mdir, n)],
                               capture_output=True, text=True)
            if r.returncode != 0:
                problems.append('mutant %s does not apply: %s' % (n, (r.stdout + r.stderr)[-300:]))
                recs.append({'mutant': n, 'status': 'does-not-apply'})
                continue
            try:
                # config headers live in include/; copied with the tree
                _prog, ctx = run_rules(mod, prop, 'quick', d, tier_units,
                                       outdir=None)
                if ctx.error and not any(x['status'] == 'violation' for x in ctx.results):
                    raise qb.AnalysisBroken(ctx.error)
            except qb.AnalysisBroken as ex:
                # a mutant that makes an anchor vanish is still "noticed", but we
                # want compiling mutants reported by a rule: count as problem
                problems.append('mutant %s: analysis broken: %s' % (n, str(ex)[:300]))
                recs.append({'mutant': n, 'status': 'analysis-broken'})
                continue
            known = {(k['rule'], k['key']) for k in load_known() if k.get('property') == prop and k.get('status', 'open') == 'open'}
            bad = [x for x in ctx.results if x['status'] in ('violation', 'inconclusive') and (x['rule'], x['key']) not in known]
            rules_hit = sorted({x['rule'] for x in bad})
            want = meta.get('rule')
            caught = bool(bad) and (want is None or any(w.strip() in rules_hit for w in want.split('/')))
            recs.append({'mutant': n, 'what': meta.get('what', ''), 'expected_rule': want,
                         'reported_by': rules_hit, 'caught': caught,
                         'first_report': (bad[0]['what'][:200] if bad else None)})
            if not caught:
                problems.append('mutant %s not caught (expected %s, got %s)' % (n, want, rules_hit))
        finally:
            shutil.rmtree(d, ignore_errors=True)
    return recs, problems


def main(argv):
    t0 = time.time()
    if len(argv) < 2:
        print('usage: qbcheck <Cxx> [--tier quick|thorough] | explain <file>')
        return 2
    if argv[1] == 'explain':
        print(json.dumps(json.load(open(argv[2])), indent=1))
        return 0
    prop = argv[1]
    tier = os.environ.get('VERIF_TIER') or 'quick'
    if '--tier' in argv:
        tier = argv[argv.index('--tier') + 1]
    if tier not in ('quick', 'thorough'):
        tier = 'quick'
    seed = int(os.environ.get('VERIF_SEED', '0') or 0)
    evdir = os.path.join(VERIF, 'evidence')
    outdir = os.path.join(VERIF, 'out', prop)
    if '--no-evidence' in argv:
        scratch_out = tempfile.mkdtemp(prefix='qbout-')
        evdir = os.path.join(scratch_out, 'evidence')
        outdir = os.path.join(scratch_out, 'out', prop)
    os.makedirs(evdir, exist_ok=True)
    shutil.rmtree(outdir, ignore_errors=True)
    os.makedirs(outdir, exist_ok=True)

    broken = []
    ctx = None
    counts = {}
    extra_runs = []
    mutant_recs = []
    mod = None
    units = []
    try:
        mod = importlib.import_module('rules.' + prop.lower())
        all_units = qb.lib_units()
        units = list(all_units) if tier == 'thorough' else [u for u in mod.UNITS]
        for u in mod.UNITS:
            if u not in all_units:
                raise qb.AnalysisBroken('unit %s is no longer part of the build (lib/Makefile.am)' % u)
        prog, ctx = run_rules(mod, prop, tier, qb.REPO, units)
        if ctx.error:
            broken.append(ctx.error)
        probs, counts = floors_ok(mod, ctx)
        # a rule that reports a violation may stop enumerating its dependent instances: floors are only meaningful on a clean run
        if not ctx.error and not any(r['status'] == 'violation' for r in ctx.results):
            broken += probs
        if tier == 'thorough':
            # alternative preprocessor configurations the module asks for
            for cfg in getattr(mod, 'ALT_CONFIGS', []):
                try:
                    cunits = cfg.get('units') or units
                    cunits = [u for u in cunits if os.path.exists(os.path.join(qb.REPO, u))]
                    _p, c2 = run_rules(mod_for(cfg, mod), prop, tier, qb.REPO, cunits,
                                       extra_flags=cfg.get('flags', ()),
                                       outdir=None, config_undef=cfg.get('config_undef', ()))
                    if c2.error:
                        raise qb.AnalysisBroken(c2.error)
                    for r in c2.results:
                        r['config'] = cfg['name']
                        if r['status'] != 'ok':
                            r['key'] = r['key']
                    only = cfg.get('rules')
                    res2 = [r for r in c2.results if only is None or r['rule'] in only]
                    extra_runs.append({'config': cfg['name'], 'flags': list(cfg.get('flags', ())) + ['config.h without ' + u for u in cfg.get('config_undef', ())], 'obligations': len(res2),
                                       'not_ok': sum(1 for r in res2 if r['status'] != 'ok')})
                    ctx.results += [r for r in res2 if r['status'] != 'ok']
                except qb.AnalysisBroken as ex:
                    if cfg.get('optional'):
                        extra_runs.append({'config': cfg['name'], 'skipped': str(ex)[:200]})
                    else:
                        broken.append('config %s: %s' % (cfg['name'], ex))
            mutant_recs, mprobs = selftest_mutants(mod, prop, mod.UNITS)
            broken += mprobs
    except qb.AnalysisBroken as ex:
        broken.append(str(ex))
    except Exception:
        broken.append('internal error: ' + traceback.format_exc()[-1500:])

    known = [k for k in load_known() if k.get('property') == prop]
    open_known = {(k['rule'], k['key']): k for k in known if k.get('status', 'open') == 'open'}
    results = ctx.results if ctx else []
    viols, knowns, incon = [], [], []
    for r in results:
        if r['status'] == 'violation':
            if (r['rule'], r['key']) in open_known:
                knowns.append(r)
            else:
                viols.append(r)
        elif r['status'] == 'inconclusive':
            incon.append(r)
    for r in incon:
        broken.append('inconclusive: %s %s %s: %s' % (r['rule'], r['key'], r['where'], r['what']))

    for r in knowns:
        k = open_known[(r['rule'], r['key'])]
        print('KNOWN-FINDING: property=%s %s %s at %s: %s' % (prop, r['rule'], r['key'], r['where'], k.get('what', r['what'])))
    exit_code = 0
    for i, r in enumerate(viols):
        path = os.path.join(outdir, '%s-%d.json' % (r['rule'], i))
        with open(path, 'w') as fh:
            json.dump({'property': prop, 'rule': r['rule'], 'instance': r['key'], 'where': r['where'],
                       'what': r['what'], 'detail': r.get('detail', {}), 'config': r.get('config', 'build'),
                       'rule_doc': (getattr(mod, 'RULES', {}) or {}).get(r['rule'], '')}, fh, indent=1, default=str)
        print('%s %s [%s] at %s: %s' % (prop, r['rule'], r['key'], r['where'], r['what']))
        print('VIOLATION property=%s replay=%s' % (prop, path))
        exit_code = 1
    if broken:
        for b in broken:
            print('ANALYSIS-BROKEN property=%s reason=%s' % (prop, b))
        if exit_code == 0:
            exit_code = 2

    n_ok = sum(1 for r in results if r['status'] == 'ok')
    samples = []
    seen_rules = set()
    for r in results:
        if r['rule'] not in seen_rules and r['status'] == 'ok':
            seen_rules.add(r['rule'])
            samples.append({'rule': r['rule'], 'instance': r['key'], 'where': r['where'], 'discharged_by': r['what']})
    for r in (viols + knowns)[:5]:
        samples.append({'rule': r['rule'], 'instance': r['key'], 'where': r['where'], 'status': 'violated', 'what': r['what']})
    distinct = len({(r['rule'], r['key'], r['where']) for r in results})
    ev = {
        'property_id': prop,
        'tier': tier,
        'seed': seed,
        'level': 'other',
        'coverage': {
            'explanation': ('static analysis of /repo\'s current source: qbfacts (clang 14 LibTooling, CFG with every '
                            'sub-expression) extracted %d units; the rules of %s enumerated %d obligations '
                            '(rule instances found in the code), %d discharged, %d violated (%d of them listed known findings), '
                            '%d inconclusive. No code was executed. %s') % (
                                len(units), prop, len(results), n_ok, len(viols) + len(knowns), len(knowns), len(incon),
                                (getattr(mod, 'DECIDES', '') if mod else '')),
            'obligations': len(results),
            'discharged': n_ok,
            'evaluations': max(len(results), 1),
            'distinct_nontrivial': distinct,
            'rule': 'one evaluation = one rule instance (a code site matched by a rule of DESIGN.md section 3 and '
                    'decided on the CFG/facts); distinct = distinct (rule, instance key, site)',
            'samples': samples or [{'note': 'no obligations enumerated'}],
            'per_rule': counts,
            'rules': getattr(mod, 'RULES', {}) if mod else {},
            'units': units,
            'functions_analysed': sum(len(v) for v in (ctx.prog.fns.values() if ctx else [])),
            'inline_depth': (ctx.depth if ctx else 0),
            'alt_configs': extra_runs,
            'mutant_selftest': mutant_recs,
            'known_findings_reported': [{'rule': r['rule'], 'key': r['key'], 'where': r['where']} for r in knowns],
            'analysis_broken': broken,
            'notes': ctx.notes if ctx else [],
            'exhaustive': False,
            'checker_cmd': './qbcheck %s --tier %s' % (prop, tier),
            'trusted_base': ['clang 14 parser/constant evaluator/CFG builder', 'qbfacts access-path and callee resolution',
                             'rule tables in /verif/rules/%s.py' % prop.lower()],
        },
        'assumptions': [
            'decides structural clauses (necessary conditions) of the property, not the behaviour itself; see DESIGN.md section 3 / ' + prop,
            'build configuration of this sandbox (Linux, epoll, POSIX semaphores, GCC atomics)' + (
                '; thorough also parses the alternative configurations listed under alt_configs' if tier == 'thorough' else ''),
        ],
        'wall_s': round(time.time() - t0, 3),
        'violations': len(viols),
    }
    with open(os.path.join(evdir, prop + '.json'), 'w') as fh:
        json.dump(ev, fh, indent=1, default=str)
    print('%s tier=%s units=%d obligations=%d discharged=%d violations=%d known=%d broken=%d wall=%.1fs' % (
        prop, tier, len(units), len(results), n_ok, len(viols), len(knowns), len(broken), time.time() - t0))
    return exit_code


def mod_for(cfg, mod):
    return mod


if __name__ == '__main__':
    sys.exit(main(sys.argv))
