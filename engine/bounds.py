"""bounds.py - A6: forward abstract interpretation over conjunctions of linear
inequalities (a small polyhedra-like domain kept as an explicit fact list).

 * a fact is a linear form  c0 + sum(ci * term_i) <= 0  with integer
   coefficients; terms are canonical expression strings (local variables,
   parameters, fields such as `t->max_line_length`, capacity symbols);
 * transfer functions for assignments (linear, MIN/MAX ternaries, unknown),
   compound assignments and ++/--, branch refinement from the CFG edge atoms,
   and call summaries supplied by the rule (library contracts and the
   repository's own helpers);
 * join keeps a fact of either side iff the other side entails it; widening
   (after a few visits of a block) keeps only facts that did not change;
 * entailment is decided by bounded elimination (each term of the goal is
   cancelled with a fact having a coefficient of the same sign) - no solver.

Every write through a tabled buffer yields obligations `offset >= 0` and
`offset + width <= capacity`; unsigned subtractions used as sizes yield
`subtrahend <= minuend`.  Nothing is executed.
"""
from engine.qb import (AnalysisBroken, estr, unwrap, cval, walk, atoms_of, callee_of, last_field, root_var)

MAX_FACTS = 60


class Lin:
    """c + sum coef*term"""
    __slots__ = ('c', 't')

    def __init__(self, c=0, t=None):
        self.c = c
        self.t = {k: v for k, v in (t or {}).items() if v != 0}

    @staticmethod
    def term(name, coef=1):
        return Lin(0, {name: coef})

    def __add__(self, o):
        o = _L(o)
        t = dict(self.t)
        for k, v in o.t.items():
            t[k] = t.get(k, 0) + v
        return Lin(self.c + o.c, t)

    def __neg__(self):
        return Lin(-self.c, {k: -v for k, v in self.t.items()})

    def __sub__(self, o):
        return self + (-_L(o))

    def scale(self, k):
        return Lin(self.c * k, {a: b * k for a, b in self.t.items()})

    def subst(self, name, repl):
        if name not in self.t:
            return self
        k = self.t[name]
        rest = Lin(self.c, {a: b for a, b in self.t.items() if a != name})
        return rest + repl.scale(k)

    def terms(self):
        return set(self.t)

    def key(self):
        return (self.c, tuple(sorted(self.t.items())))

    def is_const(self):
        return not self.t

    def __repr__(self):
        parts = []
        for k, v in sorted(self.t.items()):
            parts.append(('%s' % k) if v == 1 else ('-%s' % k) if v == -1 else '%d*%s' % (v, k))
        if self.c or not parts:
            parts.append(str(self.c))
        return ' + '.join(parts).replace('+ -', '- ')


def _L(x):
    return x if isinstance(x, Lin) else Lin(int(x))


def _norm(f):
    """divide by gcd of coefficients (keeping integrality: floor the constant)"""
    from math import gcd
    g = 0
    for v in f.t.values():
        g = gcd(g, abs(v))
    if g > 1:
        # sum(ci ti) + c <= 0  ==> sum(ci/g ti) + ceil(c/g) <= 0   (integers)
        c = -((-f.c) // g)
        return Lin(c, {k: v // g for k, v in f.t.items()})
    return f


def _weaker_bound(f, other):
    """a one-variable bound that the other side does not have as tight: the same bound loosened by a little, if the other side
    entails that (x >= 2 here, x == y and y >= 1 there: x >= 1 holds on both sides)"""
    for delta in (1, 2, 3, 4, 8, 16, 64):
        g = Lin(f.c - delta, dict(f.t))
        if other.entails(g):
            return g
    return None


class State:
    """conjunction of facts  f <= 0"""

    def __init__(self, facts=()):
        self.facts = []
        self._keys = set()
        for f in facts:
            self.add(f)

    def copy(self):
        s = State()
        s.facts = list(self.facts)
        s._keys = set(self._keys)
        return s

    def add(self, f):
        f = _norm(f)
        if f.is_const():
            return
        k = f.key()
        if k in self._keys:
            return
        # drop facts dominated by an identical form with a smaller-or-equal constant
        tk = tuple(sorted(f.t.items()))
        for g in list(self.facts):
            if tuple(sorted(g.t.items())) == tk:
                if g.c >= f.c:
                    return          # existing one is at least as strong
                self.facts.remove(g)
                self._keys.discard(g.key())
        self.facts.append(f)
        self._keys.add(k)
        if len(self.facts) > MAX_FACTS:
            # keep the shortest facts
            self.facts.sort(key=lambda x: (len(x.t), abs(x.c)))
            for g in self.facts[MAX_FACTS:]:
                self._keys.discard(g.key())
            self.facts = self.facts[:MAX_FACTS]

    def add_le(self, a, b):
        """a <= b"""
        self.add(_L(a) - _L(b))

    def add_eq(self, a, b):
        self.add_le(a, b)
        self.add_le(b, a)

    def entails(self, goal, depth=4):
        """is goal <= 0 implied?"""
        goal = _norm(goal)
        if goal.is_const():
            return goal.c <= 0
        if depth == 0:
            # close with single-variable bounds only (cheap, no branching)
            c = goal.c
            for name, a in goal.t.items():
                best = None
                for f in self.facts:
                    if len(f.t) == 1 and name in f.t and (f.t[name] > 0) == (a > 0):
                        # f: k*name + fc <= 0  => a*name <= -fc*a/k
                        bound = -f.c * a / f.t[name]
                        best = bound if best is None else min(best, bound)
                if best is None:
                    return False
                c += best
            return c <= 0
        # pick the term that has the fewest usable facts first
        best = None
        for name, a in goal.t.items():
            cands = [f for f in self.facts if name in f.t and (f.t[name] > 0) == (a > 0)]
            if not cands:
                return False
            if best is None or len(cands) < len(best[2]):
                best = (name, a, cands)
        name, a, cands = best
        for f in cands:
            b = f.t[name]
            g2 = goal.scale(abs(b)) - f.scale(abs(a))
            if name in g2.t:
                continue
            if self.entails(g2, depth - 1):
                return True
        return False

    def entails_le(self, a, b, depth=4):
        return self.entails(_L(a) - _L(b), depth)

    def forget(self, name):
        """project out a term (Fourier-Motzkin on the pairs, bounded)"""
        pos = [f for f in self.facts if f.t.get(name, 0) > 0]
        neg = [f for f in self.facts if f.t.get(name, 0) < 0]
        rest = [f for f in self.facts if name not in f.t]
        new = State(rest)
        if len(pos) * len(neg) <= 40:
            for p in pos:
                for n in neg:
                    g = p.scale(-n.t[name]) + n.scale(p.t[name])
                    if name not in g.t and len(g.t) <= 4:
                        new.add(g)
        self.facts, self._keys = new.facts, new._keys

    def assign(self, name, form):
        """name := form   (form may mention name)"""
        if form is None:
            self.forget(name)
            return
        if name in form.t:
            k = form.t[name]
            if k != 1:
                self.forget(name)
                return
            delta = Lin(form.c, {a: b for a, b in form.t.items() if a != name})
            # new = old + delta  =>  old = new - delta
            repl = Lin.term(name) - delta
            nf = [f.subst(name, repl) for f in self.facts]
            self.facts, self._keys = [], set()
            for f in nf:
                self.add(f)
        else:
            self.forget(name)
            self.add_eq(Lin.term(name), form)

    def const_of(self, name):
        """value of a term if the state pins it to one constant"""
        lo = hi = None
        for f in self.facts:
            if len(f.t) == 1 and name in f.t:
                k = f.t[name]
                if k == 1:
                    hi = -f.c if hi is None else min(hi, -f.c)
                elif k == -1:
                    lo = f.c if lo is None else max(lo, f.c)
        return lo if lo is not None and lo == hi else None

    def pinned(self):
        """{term: constant} for every term the state pins to one value, directly or through facts whose other terms are pinned"""
        consts = {}
        for _round in range(3):
            lo, hi = {}, {}
            for f in self.facts:
                free = [v for v in f.t if v not in consts]
                if len(free) != 1:
                    continue
                v = free[0]
                k = f.t[v]
                rest = f.c + sum(a * consts[x] for x, a in f.t.items() if x != v)
                # k*v + rest <= 0
                if k > 0:
                    b = -rest / k
                    hi[v] = b if v not in hi else min(hi[v], b)
                else:
                    b = -rest / k
                    lo[v] = b if v not in lo else max(lo[v], b)
            new = {v: lo[v] for v in lo if v in hi and lo[v] == hi[v] and lo[v] == int(lo[v])}
            if not new:
                break
            for v, c in new.items():
                consts[v] = int(c)
        return consts

    def join(self, other):
        if self._keys == other._keys:
            return self.copy()
        res = State()
        # terms pinned to different constants on the two sides: a fact that mentions one of them has, on its own side, an
        # equivalent form without it; that form may hold on the other side too (x + t <= k with t = 16 here, t = 8 there)
        pa, pb = self.pinned(), other.pinned()
        diff = [v for v in pa if v in pb and pa[v] != pb[v]]
        if diff and len(diff) <= 6:
            for (own, oth, pc) in ((self, other, pa), (other, self, pb)):
                for f in own.facts:
                    vs = [v for v in diff if v in f.t]
                    if not vs or len(f.t) == 1:
                        continue
                    g = f
                    for v in vs:
                        g = g.subst(v, Lin(pc[v]))
                    g = _norm(g)
                    if not g.is_const() and oth.entails(g):
                        res.add(g)
        for f in self.facts:
            if f.key() in other._keys or other.entails(f):
                res.add(f)
            elif len(f.t) == 1:
                res_weaker = _weaker_bound(f, other)
                if res_weaker is not None:
                    res.add(res_weaker)
        for f in other.facts:
            if f.key() in self._keys:
                continue
            if self.entails(f):
                res.add(f)
            elif len(f.t) == 1:
                res_weaker = _weaker_bound(f, self)
                if res_weaker is not None:
                    res.add(res_weaker)
        # constant-pair hull: terms pinned to (different) constants on both sides lie on a line
        names = set()
        for f in self.facts + other.facts:
            if len(f.t) == 1:
                names |= set(f.t)
        pinned = []
        for nme in sorted(names):
            a, b = self.const_of(nme), other.const_of(nme)
            if a is not None and b is not None and a != b:
                pinned.append((nme, a, b))
        for i in range(len(pinned)):
            for k in range(i + 1, len(pinned)):
                (x, xa, xb), (y, ya, yb) = pinned[i], pinned[k]
                # (X - xa) * (yb - ya) == (Y - ya) * (xb - xa)
                l = (Lin.term(x) - xa).scale(yb - ya) - (Lin.term(y) - ya).scale(xb - xa)
                if len(pinned) <= 6:
                    res.add(l)
                    res.add(-l)
        return res

    def same(self, other):
        return self._keys == other._keys

    def __repr__(self):
        return '{' + '; '.join('%r <= 0' % f for f in self.facts) + '}'


# --------------------------------------------------------------------------

# libc routines whose pointer parameter at that position is pointer-to-const (ISO C prototypes)
READONLY_ARGS = {'memcpy': (1,), 'memmove': (1,), 'memcmp': (0, 1), 'strlen': (0,), 'write': (1,), 'fwrite': (0,),
                 'strcmp': (0, 1), 'strncmp': (0, 1), 'memchr': (0,)}


# configuration fields that are symbols of the analysis: (record, field) -> term name
CANON_FIELDS = {('qb_log_target', 'max_line_length'): 'max_line_length'}


class Analysis:
    """one function, one set of tracked buffers"""

    def __init__(self, prog, fn, buffers, init=None, summaries=None, symbols_nonneg=(), unsigned_terms=None, value_hook=None):
        """buffers: {buffer root name (param/local array/field string): capacity Lin}
        init: list of Lin facts holding at entry
        summaries: {callee: fn(self, ev, state) -> None}   (may add facts / obligations)
        value_hook(expr) -> Lin or None for expressions lin_of does not know (e.g. strlen calls)"""
        self.prog = prog
        self.fn = fn
        self.buffers = buffers
        self.init = list(init or [])
        self.summaries = summaries or {}
        self.obligations = []      # (ev, key, text, ok)
        self._ob_seen = {}
        self.value_hook = value_hook
        self.ptr = {}              # pointer variable -> (buffer, offset Lin) (flow-insensitive aliases discovered on the fly are in the state)
        self.returns = []          # (ev, state, value Lin)
        self.wrapped_guards = []   # guards ignored because their 32-bit unsigned arithmetic may wrap
        self.states = {}
        self.assigned = set()
        for ev in fn.events():
            if ev.kind == 'STORE':
                l = unwrap(ev.lhs)
                if l.get('k') == 'var':
                    self.assigned.add(l['n'])
            elif ev.kind == 'DECL':
                self.assigned.add(ev.d['var'])
        self.unsigned = set(unsigned_terms or ())
        for p in fn.params:
            ti = prog.type_info(p['ty'])
            if ti.get('kind') == 'int' and ti.get('signed') is False:
                self.unsigned.add(p['n'])
        for ev in fn.events('DECL'):
            ti = prog.type_info(ev.d.get('ty', ''))
            if ti.get('kind') == 'int' and ti.get('signed') is False:
                self.unsigned.add(ev.d['var'])

    # -- expressions -> linear forms
    def lin(self, e, st=None):
        e = unwrap(e)
        if not isinstance(e, dict):
            return None
        c = cval(e)
        if c is not None:
            return Lin(c)
        k = e.get('k')
        if k == 'mem' and CANON_FIELDS:
            lf = last_field(e)
            if lf in CANON_FIELDS:
                return Lin.term(CANON_FIELDS[lf])     # a configuration field: one symbol whatever the local pointing at it is called
        if k in ('var', 'mem'):
            return Lin.term(estr(e))
        if k == 'bin':
            op = e['op']
            if op in ('+', '-'):
                a, b = self.lin(e['l'], st), self.lin(e['r'], st)
                if a is None or b is None:
                    return None
                return a + b if op == '+' else a - b
            if op == '*':
                for (x, y) in ((e['l'], e['r']), (e['r'], e['l'])):
                    cx = cval(unwrap(x))
                    if cx is not None:
                        ly = self.lin(y, st)
                        return ly.scale(cx) if ly is not None else None
                return None
            if op == ',':
                return self.lin(e['r'], st)
            return None
        if k == 'un':
            # the ++/-- event itself precedes the enclosing expression in the CFG element order, so the
            # state already holds the new value: post-forms denote the old one
            inner = self.lin(e['e'], st)
            if inner is None:
                return None
            if e['op'] == 'post++':
                return inner - 1
            if e['op'] == 'post--':
                return inner + 1
            if e['op'] in ('++pre', '--pre'):
                return inner
            if e['op'] == '-':
                return -inner
            return None
        if k == 'idx':
            return None
        if k == 'addr':
            # &buf[i]  ->  buf + i
            inner = unwrap(e['e'])
            if inner.get('k') == 'idx':
                b, i = self.lin(inner['b'], st), self.lin(inner['i'], st)
                if b is not None and i is not None:
                    return b + i
            return None
        if k == 'stmtexpr' and 'last' in e:
            return self.lin(e['last'], st)
        if self.value_hook is not None:
            return self.value_hook(self, e, st)
        return None

    def minmax(self, e):
        """(kind, a, b) for ((a) < (b) ? (a) : (b)) style ternaries"""
        e = unwrap(e)
        if e.get('k') != 'cond':
            return None
        c = unwrap(e['c'])
        if c.get('k') != 'bin' or c['op'] not in ('<', '<=', '>', '>='):
            return None
        l, r, t, f = estr(c['l']), estr(c['r']), estr(e['t']), estr(e['f'])
        if (l, r) == (t, f):
            kind = 'min' if c['op'] in ('<', '<=') else 'max'
        elif (l, r) == (f, t):
            kind = 'max' if c['op'] in ('<', '<=') else 'min'
        else:
            return None
        return kind, e['t'], e['f']

    # -- obligations
    def oblige(self, ev, key, goal, st, text):
        """goal: Lin that must be <= 0"""
        ok = goal is not None and st.entails(goal)
        k = (ev.d.get('id'), key, ev.inl)
        prev = self._ob_seen.get(k)
        if prev is None:
            self._ob_seen[k] = len(self.obligations)
            self.obligations.append([ev, key, text, ok])
        else:
            # must hold in every abstract state reaching the event
            self.obligations[prev][3] = self.obligations[prev][3] and ok
            if not ok:
                self.obligations[prev][2] = text

    def dest(self, e, st):
        """(buffer name, offset Lin) of a pointer expression into a tabled buffer"""
        l = self.lin(e, st)
        if l is None:
            return None
        bufs = [t for t in l.t if t in self.buffers and l.t[t] == 1]
        if len(bufs) == 1:
            return bufs[0], l - Lin.term(bufs[0])
        # pointer variables known equal to buffer + offset (possibly through other pointer variables)
        def resolve(t, depth):
            if t in self.buffers:
                return t, Lin(0)
            if depth == 0:
                return None
            for f in st.facts:
                if f.t.get(t) != 1:
                    continue
                for u, cu in f.t.items():
                    if u == t or cu != -1:
                        continue
                    # t - u - g <= 0 ; need the converse as well:  t = u + g
                    g = Lin(-f.c, {k: -v for k, v in f.t.items() if k not in (t, u)})
                    if not st.entails(Lin.term(u) + g - Lin.term(t)):
                        continue
                    r = resolve(u, depth - 1)
                    if r is not None:
                        return r[0], r[1] + g
            return None
        for t, cf in l.t.items():
            if cf != 1:
                continue
            r = resolve(t, 3)
            if r is not None and r[0] != t:
                return r[0], (l - Lin.term(t)) + r[1]
        return None

    def check_write(self, ev, ptr_expr, width, st, what):
        """write of `width` (Lin) bytes/elements at ptr_expr"""
        d = self.dest(ptr_expr, st)
        if d is None:
            return False
        buf, off = d
        cap = self.buffers[buf]
        self.oblige(ev, '%s:offset>=0' % what, -off, st, '%s: offset %r into %s may be negative (index underflow)' % (what, off, buf))
        self.oblige(ev, '%s:within-capacity' % what, off + width - cap, st,
                    '%s: %r + %r <= %r (capacity of %s) is not entailed' % (what, off, width, cap, buf))
        return True

    def check_read(self, ev, ptr_expr, width, st, what):
        """read of `width` bytes at ptr_expr from a buffer whose valid extent is tabled in self.readcaps"""
        caps = getattr(self, 'readcaps', None)
        if not caps:
            return False
        saved = self.buffers
        self.buffers = caps
        try:
            d = self.dest(ptr_expr, st)
        finally:
            self.buffers = saved
        if d is None:
            # no equality pointer = buffer + offset (lost at a join of paths that advanced the cursor differently): the pointer
            # still belongs to a buffer it is entailed not to lie below, and the upper end is an inequality like any other
            l = self.lin(ptr_expr, st)
            if l is None:
                return False
            for buf, cap in caps.items():
                if buf not in l.t and st.entails(Lin.term(buf) - l):
                    self.oblige(ev, '%s:within-valid-bytes' % what, l + width - Lin.term(buf) - cap, st,
                                '%s: %r + %r <= %s + %r (valid bytes of %s) is not entailed' % (what, l, width, buf, cap, buf))
                    return True
            return False
        buf, off = d
        cap = caps[buf]
        self.oblige(ev, '%s:offset>=0' % what, -off, st, '%s: offset %r into %s may be negative' % (what, off, buf))
        self.oblige(ev, '%s:within-valid-bytes' % what, off + width - cap, st,
                    '%s: %r + %r <= %r (valid bytes of %s) is not entailed' % (what, off, width, cap, buf))
        return True

    def check_nowrap(self, ev, e, st, what):
        """unsigned a - b inside e used as a size: b <= a"""
        for n in walk(e):
            if n.get('k') == 'bin' and n['op'] == '-':
                ti = self.prog.type_info(n.get('ty', ''))
                if ti.get('kind') == 'int' and ti.get('signed') is False:
                    a, b = self.lin(n['l'], st), self.lin(n['r'], st)
                    if a is None or b is None:
                        continue
                    self.oblige(ev, '%s:no-wrap(%s)' % (what, estr(n)), b - a, st,
                                '%s: unsigned %s can wrap around (%r <= %r is not entailed)' % (what, estr(n), b, a))

    # -- transfer
    def assign_expr(self, st, name, rhs):
        mm = self.minmax(rhs) if rhs is not None else None
        if mm:
            kind, a, b = mm
            la, lb = self.lin(a, st), self.lin(b, st)
            # evaluate operands before the assignment (they may mention name)
            st.forget(name) if name not in ((la.terms() if la else set()) | (lb.terms() if lb else set())) else None
            if la is not None and lb is not None and name not in la.t and name not in lb.t:
                x = Lin.term(name)
                if kind == 'min':
                    st.add_le(x, la)
                    st.add_le(x, lb)
                    # x >= c when both >= c: try constants 0 and 1
                    for cst in (0, 1):
                        if st.entails_le(cst, la) and st.entails_le(cst, lb):
                            st.add_le(cst, x)
                else:
                    st.add_le(la, x)
                    st.add_le(lb, x)
                return
            if la is not None and lb is not None:
                # name on both sides, e.g. cutoff = MIN(cutoff, buf_len - 1): x' <= x_old and x' <= other
                other = lb if name in la.t and la.key() == Lin.term(name).key() else la if name in lb.t and lb.key() == Lin.term(name).key() else None
                if other is not None and name not in other.t:
                    if kind == 'min':
                        # facts of the form  name <= ...  stay valid; lower bounds on name are lost
                        keep = [f for f in st.facts if f.t.get(name, 0) >= 0]
                        low_ok = [cst for cst in (0, 1) if st.entails_le(cst, Lin.term(name)) and st.entails_le(cst, other)]
                        st.facts, st._keys = [], set()
                        for f in keep:
                            st.add(f)
                        st.add_le(Lin.term(name), other)
                        for cst in low_ok:
                            st.add_le(cst, Lin.term(name))
                    else:
                        keep = [f for f in st.facts if f.t.get(name, 0) <= 0]
                        st.facts, st._keys = [], set()
                        for f in keep:
                            st.add(f)
                        st.add_le(other, Lin.term(name))
                    return
            st.forget(name)
            self._typefacts(st, name)
            return
        form = self.lin(rhs, st) if rhs is not None else None
        if form is None and rhs is not None:
            # x = a % m  with unsigned operands:  0 <= x <= m - 1  (m >= 1 or the operation is undefined)
            r = unwrap(rhs)
            if r.get('k') == 'bin' and r.get('op') == '%':
                ti = self.prog.type_info(r.get('ty', ''))
                m = self.lin(r['r'], st)
                if ti.get('kind') == 'int' and ti.get('signed') is False and m is not None and name not in m.t:
                    st.forget(name)
                    st.add_le(0, Lin.term(name))
                    st.add_le(Lin.term(name), m - 1)
                    return
        st.assign(name, form)
        if form is None:
            self._typefacts(st, name)

    NONNEG_CALLS = ('snprintf', 'vsnprintf', 'strlen', 'strlcpy', 'strlcat')

    def rhs_nonneg(self, e):
        """library contract: these calls return a count >= 0 (snprintf: negative only on an encoding error,
        which the fixed "%d"-style formats used here cannot produce)"""
        e = unwrap(e)
        return isinstance(e, dict) and e.get('k') == 'call' and (callee_of(e) in self.NONNEG_CALLS or callee_of(e) in getattr(self, 'extra_nonneg', ()))

    def _typefacts(self, st, name):
        if name in self.unsigned:
            st.add_le(0, Lin.term(name))

    def with_types(self, st):
        """facts that hold by type (unsigned locals/params are >= 0) are re-established"""
        for name in self.unsigned:
            st.add_le(0, Lin.term(name))
        return st

    def transfer(self, ev, st):
        if ev.kind == 'STORE':
            l = unwrap(ev.lhs)
            op = ev.d['op']
            if l.get('k') == 'var':
                name = l['n']
                if op == '=':
                    self.check_nowrap(ev, ev.rhs, st, 'assignment to %s' % name)
                    self.assign_expr(st, name, ev.rhs)
                elif op in ('++', '--'):
                    st.assign(name, Lin.term(name) + (1 if op == '++' else -1))
                elif op in ('+=', '-='):
                    r = self.lin(ev.rhs, st)
                    if r is None and op == '+=' and self.rhs_nonneg(ev.rhs):
                        # x grows by an unknown non-negative amount: lower bounds of x stay valid
                        keep = [f for f in st.facts if f.t.get(name, 0) <= 0]
                        st.facts, st._keys = [], set()
                        for f in keep:
                            st.add(f)
                    elif r is None:
                        st.forget(name)
                        self._typefacts(st, name)
                    else:
                        if op == '-=' and name in self.unsigned:
                            self.oblige(ev, 'no-wrap(%s -= %s)' % (name, estr(ev.rhs)), r - Lin.term(name), st,
                                        'unsigned %s -= %s can wrap' % (name, estr(ev.rhs)))
                        st.assign(name, Lin.term(name) + (r if op == '+=' else -r))
                else:
                    st.forget(name)
                    self._typefacts(st, name)
            elif l.get('k') == 'idx':
                # buf[i] = ...
                b = self.lin(l['b'], st)
                i = self.lin(l['i'], st)
                if b is not None and i is not None:
                    ptr = {'k': 'addr', 'e': l}
                    self.check_write(ev, ptr, Lin(1), st, 'store %s' % estr(l))
            elif l.get('k') == 'deref':
                self.check_write(ev, l['e'], Lin(1), st, 'store %s' % estr(l))
        elif ev.kind == 'DECL':
            name = ev.d['var']
            if 'init' in ev.d:
                self.check_nowrap(ev, ev.d['init'], st, 'initialiser of %s' % name)
                self.assign_expr(st, name, ev.d['init'])
            else:
                st.forget(name)
                self._typefacts(st, name)
        elif ev.kind == 'LOAD':
            e = unwrap(ev.e)
            if e.get('k') == 'idx':
                b = self.lin(e['b'], st)
                if b is not None and any(t in self.buffers for t in b.t):
                    ptr = {'k': 'addr', 'e': e}
                    d = self.dest(ptr, st)
                    if d is not None:
                        buf, off = d
                        self.oblige(ev, 'read %s:offset>=0' % estr(e), -off, st, 'read %s: index %r may be negative' % (estr(e), off))
                if b is not None and getattr(self, 'readcaps', None):
                    self.check_read(ev, {'k': 'addr', 'e': e}, Lin(1), st, 'read %s' % estr(e))
        elif ev.kind == 'CALL':
            c = ev.callee
            if c in self.summaries:
                self.summaries[c](self, ev, st)
            else:
                self.default_call(ev, st)
            # a call may overwrite locals passed by address
            for i, a in enumerate(ev.args):
                au = unwrap(a)
                if au.get('k') == 'addr' and unwrap(au['e']).get('k') == 'var':
                    if i in READONLY_ARGS.get(c, ()):
                        continue    # pointer-to-const parameter of a libc routine: the local is only read
                    st.forget(unwrap(au['e'])['n'])
        elif ev.kind == 'RETURN':
            v = self.lin(ev.e, st) if ev.e is not None else None
            self.returns.append((ev, st.copy(), v))

    def default_call(self, ev, st):
        c = ev.callee
        a = ev.args
        if c in ('memcpy', 'memmove', 'memset') and len(a) == 3:
            n = self.lin(a[2], st)
            self.check_nowrap(ev, a[2], st, c)
            if n is not None:
                self.check_write(ev, a[0], n, st, '%s(%s, ..., %s)' % (c, estr(a[0]), estr(a[2])))
                if c != 'memset':
                    self.check_read(ev, a[1], n, st, '%s(.., %s, %s) source' % (c, estr(a[1]), estr(a[2])))
            else:
                d = self.dest(a[0], st)
                if d is not None:
                    self.oblige(ev, '%s:length-known' % c, None, st, '%s into %s with a length the analysis cannot bound: %s' % (c, d[0], estr(a[2])))
        elif c in ('snprintf', 'vsnprintf') and len(a) >= 2:
            n = self.lin(a[1], st)
            self.check_nowrap(ev, a[1], st, c)
            if n is not None:
                self.check_write(ev, a[0], n, st, '%s(%s, %s, ...)' % (c, estr(a[0]), estr(a[1])))
        elif c in ('strlcpy', 'strlcat', 'strncpy') and len(a) == 3:
            n = self.lin(a[2], st)
            self.check_nowrap(ev, a[2], st, c)
            if n is not None:
                self.check_write(ev, a[0], n, st, '%s(%s, ..., %s)' % (c, estr(a[0]), estr(a[2])))
        elif c in ('strcpy', 'strcat', 'sprintf', 'vsprintf', 'gets'):
            d = self.dest(a[0], st) if a else None
            if d is not None:
                self.oblige(ev, '%s:unbounded' % c, None, st, 'unbounded %s into %s' % (c, d[0]))

    def may_wrap32(self, e, st):
        """does e contain a + or * evaluated in unsigned 32-bit arithmetic whose mathematical value is not entailed to fit?"""
        for n in walk(e):
            if n.get('k') == 'bin' and n.get('op') in ('+', '*'):
                ti = self.prog.type_info(n.get('ty', ''))
                if ti.get('kind') == 'int' and ti.get('signed') is False and ti.get('bits') == 32:
                    v = self.lin(n, st)
                    if v is None or not st.entails(v - Lin(2 ** 32 - 1)):
                        return True
            if n.get('k') == 'bin' and n.get('op') == '-':
                # unsigned a - b wraps when b > a: `left - cursor < need` then says nothing about cursor + need
                ti = self.prog.type_info(n.get('ty', ''))
                if ti.get('kind') == 'int' and ti.get('signed') is False and ti.get('bits', 0) >= 32:
                    a, b = self.lin(n['l'], st), self.lin(n['r'], st)
                    if a is None or b is None or not st.entails(b - a):
                        return True
        return False

    def refine(self, st, cond, lab):
        """add the facts of the edge (cond == lab) to st; returns False when the edge is infeasible in st"""
        feasible = True
        for at in atoms_of(cond, lab):
            l, r = self.lin(at.l, st), self.lin(at.r, st)
            if l is None or r is None:
                continue
            if self.may_wrap32(at.l, st) or self.may_wrap32(at.r, st):
                # a comparison whose operand is computed in 32-bit unsigned arithmetic and may exceed 2^32 - 1 says nothing
                # about the mathematical sum: no fact is learned from this edge
                self.wrapped_guards.append((estr(cond), lab))
                continue
            op = at.op
            new = []
            if op == '<=':
                new = [l - r]
            elif op == '<':
                new = [l - r + 1]
            elif op == '>=':
                new = [r - l]
            elif op == '>':
                new = [r - l + 1]
            elif op == '==':
                new = [l - r, r - l]
            elif op == '!=':
                # x != y with x >= y  =>  x >= y + 1   (and symmetrically)
                if st.entails(r - l) and st.entails(l - r):
                    feasible = False
                elif st.entails(r - l):
                    new = [r - l + 1]
                elif st.entails(l - r):
                    new = [l - r + 1]
            for f in new:
                # f <= 0 contradicts the state iff the state entails f >= 1
                if st.entails(-f + 1):
                    feasible = False
                st.add(f)
        return feasible

    def _pure_cond(self, blk):
        """a block that only evaluates its condition (no stores, calls or declarations)"""
        return blk.cond is not None and all(ev.kind == 'LOAD' for ev in blk.events)

    def _block_outs(self, b, states):
        """states: {key: State} arriving at block b.  Returns {succ: {key: State}} - for a pure condition block every
        arriving state is refined separately (path sensitivity across if / else-if / && / || chains), otherwise the
        arriving states are joined first."""
        fn = self.fn
        blk = fn.blocks[b]
        res = {}
        if self._pure_cond(blk) and len(states) <= 8:
            groups = list(states.items())
        else:
            acc = None
            for st in states.values():
                st = self.with_types(st.copy())
                acc = st if acc is None else acc.join(st)
            groups = [(None, acc)] if acc is not None else []
        for (key, st0) in groups:
            st = self.with_types(st0.copy())
            for ev in blk.events:
                self.states.setdefault((b, ev.idx), []).append(st.copy())
                self.transfer(ev, st)
                self.with_types(st)
            if blk.noreturn:
                continue
            for k, (t, lab) in enumerate(blk.succs):
                out = st.copy()
                ok = True
                if blk.cond is not None and lab in (True, False):
                    ok = self.refine(out, blk.cond, lab)
                if not ok:
                    continue
                okey = (b, k, key if self._pure_cond(blk) else None)
                res.setdefault(t, {})[okey] = out
        return res

    def run(self, max_visits=6):
        fn = self.fn
        st0 = State(self.init)
        for p in fn.params:
            if p['n'] in self.unsigned:
                st0.add_le(0, Lin.term(p['n']))
        INE = {fn.entry: {('entry',): st0}}      # block -> {incoming key: State}
        changes = {}
        shapes = {}
        work = [fn.entry]
        steps = 0
        while work:
            steps += 1
            if steps > 6000:
                raise AnalysisBroken('bounds: no fixpoint in %s' % fn.name)
            b = work.pop()
            outs = self._block_outs(b, INE[b])
            for t, d in outs.items():
                cur = INE.setdefault(t, {})
                changed = False
                for key, out in d.items():
                    out = self.with_types(out)
                    if key not in cur:
                        cur[key] = out
                        changed = True
                        continue
                    j = self.with_types(cur[key].copy()).join(out)
                    if not j.same(cur[key]):
                        # widening per fact shape
                        oldshapes = {tuple(sorted(f.t.items())): f.c for f in cur[key].facts}
                        keep = []
                        for f in j.facts:
                            sh = tuple(sorted(f.t.items()))
                            if sh in oldshapes and oldshapes[sh] != f.c:
                                k2 = (t, key, sh)
                                shapes[k2] = shapes.get(k2, 0) + 1
                                if shapes[k2] > 2:
                                    continue
                            keep.append(f)
                        cur[key] = State(keep)
                        changed = True
                if len(cur) > 10:
                    acc = None
                    for st in cur.values():
                        acc = st if acc is None else acc.join(st)
                    INE[t] = {('merged',): acc}
                    changed = True
                if changed:
                    work.append(t)
        # narrowing: two descending rounds in reverse post-order (sound: F of a post-fixpoint is a post-fixpoint)
        order, seen = [], set()
        stack = [(fn.entry, iter([t for (t, _l) in fn.blocks[fn.entry].succs]))]
        seen.add(fn.entry)
        while stack:
            x, it = stack[-1]
            for t in it:
                if t not in seen:
                    seen.add(t)
                    stack.append((t, iter([u for (u, _l) in fn.blocks[t].succs])))
                    break
            else:
                order.append(x)
                stack.pop()
        order.reverse()
        OUTS = {b: self._block_outs(b, INE[b]) for b in INE}
        for _round in range(2):
            for bnode in order:
                if bnode not in INE:
                    continue
                if bnode != fn.entry:
                    new = {}
                    for pb in fn.blocks[bnode].preds:
                        if pb not in OUTS or fn.blocks[pb].noreturn:
                            continue
                        for key, st in OUTS[pb].get(bnode, {}).items():
                            new[key] = self.with_types(st)
                    if new:
                        if len(new) > 10:
                            acc = None
                            for st in new.values():
                                acc = st if acc is None else acc.join(st)
                            new = {('merged',): acc}
                        INE[bnode] = new
                OUTS[bnode] = self._block_outs(bnode, INE[bnode])
        self.INE = INE
        self.IN = {}
        for b, d in INE.items():
            acc = None
            for st in d.values():
                st = self.with_types(st.copy())
                acc = st if acc is None else acc.join(st)
            self.IN[b] = acc
        # final pass: obligations and return states from the fixpoint only
        self.obligations, self._ob_seen, self.returns, self.states = [], {}, [], {}
        for b in INE:
            self._block_outs(b, INE[b])
        return self
